//go:build verif
// +build verif

package retrieval

import (
	"bytes"
	"context"
	"encoding/binary"
	"fmt"
	"io"
	"sync"
	"testing"
	"time"

	"github.com/gauss-project/aurorafs/pkg/aurora"
	"github.com/gauss-project/aurorafs/pkg/boson"
	"github.com/gauss-project/aurorafs/pkg/chunkinfo"
	"github.com/gauss-project/aurorafs/pkg/crypto"
	"github.com/gauss-project/aurorafs/pkg/logging"
	"github.com/gauss-project/aurorafs/pkg/p2p"
	"github.com/gauss-project/aurorafs/pkg/p2p/protobuf"
	"github.com/gauss-project/aurorafs/pkg/p2p/streamtest"
	"github.com/gauss-project/aurorafs/pkg/retrieval/aco"
	"github.com/gauss-project/aurorafs/pkg/retrieval/pb"
	"github.com/gauss-project/aurorafs/pkg/routetab"
	"github.com/gauss-project/aurorafs/pkg/sctx"
	"github.com/gauss-project/aurorafs/pkg/soc"
	"github.com/gauss-project/aurorafs/pkg/storage"
	storemock "github.com/gauss-project/aurorafs/pkg/storage/mock"
	"github.com/gauss-project/aurorafs/pkg/zzverif/chunkref"
	"github.com/gauss-project/aurorafs/pkg/zzverif/mc"
)

// ---------------------------------------------------------------- stubs

// c06ChunkInfo: minimal chunkinfo.Interface (the repository's mock is stale).
type c06ChunkInfo struct {
	mu        sync.Mutex
	routes    []aco.Route
	retrieved [][]byte // cids reported through OnChunkRetrieved
}

func (c *c06ChunkInfo) FindChunkInfo(context.Context, []byte, boson.Address, []boson.Address) bool {
	return false
}
func (c *c06ChunkInfo) GetChunkInfo(boson.Address, boson.Address) []aco.Route { return c.routes }
func (c *c06ChunkInfo) GetChunkInfoDiscoverOverlays(boson.Address) []aurora.ChunkInfoOverlay {
	return nil
}
func (c *c06ChunkInfo) GetChunkInfoServerOverlays(boson.Address) []aurora.ChunkInfoOverlay {
	return nil
}
func (c *c06ChunkInfo) CancelFindChunkInfo(boson.Address) {}
func (c *c06ChunkInfo) OnChunkTransferred(cid, root, overlay, target boson.Address) error {
	return nil
}
func (c *c06ChunkInfo) Init(context.Context, []byte, boson.Address) bool { return false }
func (c *c06ChunkInfo) GetChunkPyramid(boson.Address) []*chunkinfo.PyramidCidNum {
	return nil
}
func (c *c06ChunkInfo) IsDiscover(boson.Address) bool { return false }
func (c *c06ChunkInfo) GetFileList(boson.Address) ([]map[string]interface{}, []boson.Address) {
	return nil, nil
}
func (c *c06ChunkInfo) DelFile(boson.Address, func() error) error { return nil }
func (c *c06ChunkInfo) DelDiscover(boson.Address)                 {}
func (c *c06ChunkInfo) OnChunkRetrieved(cid, root, source boson.Address) error {
	c.mu.Lock()
	defer c.mu.Unlock()
	c.retrieved = append(c.retrieved, cid.Bytes())
	return nil
}
func (c *c06ChunkInfo) GetChunkInfoSource(boson.Address) aurora.ChunkInfoSourceApi {
	return aurora.ChunkInfoSourceApi{}
}
func (c *c06ChunkInfo) ManifestView(context.Context, string, string, int) (*chunkinfo.ManifestNode, error) {
	return nil, nil
}
func (c *c06ChunkInfo) GetManifest(string, string, int) *chunkinfo.ManifestNode { return nil }

var _ chunkinfo.Interface = (*c06ChunkInfo)(nil)

// c06RouteTab: every peer is directly reachable.
type c06RouteTab struct{}

func (c06RouteTab) GetRoute(context.Context, boson.Address) ([]*routetab.Path, error) {
	return nil, nil
}
func (c06RouteTab) FindRoute(context.Context, boson.Address, ...time.Duration) ([]*routetab.Path, error) {
	return nil, nil
}
func (c06RouteTab) DelRoute(context.Context, boson.Address) error { return nil }
func (c06RouteTab) Connect(context.Context, boson.Address) error  { return nil }
func (c06RouteTab) GetTargetNeighbor(context.Context, boson.Address, int) ([]boson.Address, error) {
	return nil, nil
}
func (c06RouteTab) IsNeighbor(boson.Address) bool { return true }
func (c06RouteTab) FindUnderlay(context.Context, boson.Address, ...time.Duration) (*aurora.Address, error) {
	return nil, nil
}

var _ routetab.RouteTab = c06RouteTab{}

type c06Accounting struct {
	mu                     sync.Mutex
	reserve, credit, debit int
}

func (a *c06Accounting) Reserve(boson.Address, uint64) error {
	a.mu.Lock()
	a.reserve++
	a.mu.Unlock()
	return nil
}
func (a *c06Accounting) Credit(context.Context, boson.Address, uint64) error {
	a.mu.Lock()
	a.credit++
	a.mu.Unlock()
	return nil
}
func (a *c06Accounting) Debit(boson.Address, uint64) error {
	a.mu.Lock()
	a.debit++
	a.mu.Unlock()
	return nil
}

type c06Put struct{ addr, data []byte }

// c06Store records every Put made by the service under test.
type c06Store struct {
	*storemock.MockStorer
	mu   sync.Mutex
	puts []c06Put
}

func (s *c06Store) Put(ctx context.Context, mode storage.ModePut, chs ...boson.Chunk) ([]bool, error) {
	s.mu.Lock()
	for _, ch := range chs {
		s.puts = append(s.puts, c06Put{append([]byte{}, ch.Address().Bytes()...), append([]byte{}, ch.Data()...)})
	}
	s.mu.Unlock()
	return s.MockStorer.Put(ctx, mode, chs...)
}

// ---------------------------------------------------------------- chunks and replies

type c06Target struct {
	name string
	addr []byte
	data []byte
}

func c06CAC(x *mc.X, span uint64, payload []byte) c06Target {
	d := make([]byte, 8+len(payload))
	binary.LittleEndian.PutUint64(d, span)
	copy(d[8:], payload)
	a := chunkref.BMT(d)
	if a == nil {
		x.Broken("reference BMT rejects a %d byte chunk", len(d))
	}
	return c06Target{addr: a, data: d}
}

func c06Pattern(n, mul, add int) []byte {
	b := make([]byte, n)
	for i := range b {
		b[i] = byte(i*mul + add)
		if b[i] == 0 {
			b[i] = 0x5a
		}
	}
	return b
}

var c06Keys = [][]byte{
	bytes.Repeat([]byte{0x11}, 32),
	bytes.Repeat([]byte{0x22}, 32),
}

func c06SOC(x *mc.X, keyIdx int, idByte byte, inner c06Target) c06Target {
	key, err := crypto.DecodeSecp256k1PrivateKey(c06Keys[keyIdx])
	x.NoErr(err, "decode key")
	signer := crypto.NewDefaultSigner(key)
	id := bytes.Repeat([]byte{idByte}, 32)
	ch, err := soc.New(id, boson.NewChunk(boson.NewAddress(inner.addr), inner.data)).Sign(signer)
	x.NoErr(err, "sign soc")
	return c06Target{addr: ch.Address().Bytes(), data: append([]byte{}, ch.Data()...)}
}

func c06Targets(x *mc.X) []c06Target {
	C := boson.ChunkSize
	small := c06CAC(x, 3, []byte("foo"))
	small.name = "cac-small"
	full := c06CAC(x, uint64(C), c06Pattern(C, 7, 3))
	full.name = "cac-full"
	inter := c06CAC(x, uint64(4*C), c06Pattern(4*32, 13, 1))
	inter.name = "cac-intermediate"
	zt := c06Pattern(40, 5, 9)
	zt[39], zt[38] = 0, 0
	ztail := c06CAC(x, 40, zt)
	ztail.name = "cac-zero-tail"
	inner := c06CAC(x, 10, []byte("single-own"))
	so := c06SOC(x, 0, 0xa1, inner)
	so.name = "soc"
	ts := []c06Target{small, full, inter, ztail, so}
	for _, t := range ts {
		if !chunkref.Valid(t.addr, t.data) {
			x.Broken("reference rejects honest chunk %s", t.name)
		}
	}
	return ts
}

type c06Reply struct {
	name  string
	data  []byte
	close bool // close the stream without a Delivery
	valid bool // reference verdict for the requested address (filled by c06Alphabet)
}

// The alphabets are pure functions of the geometry; they are built once and
// shared (read-only) by all executions.
var c06Cache struct {
	ts    []c06Target
	first [][]c06Reply
	later [][]c06Reply
}

func c06Alphabet(x *mc.X) ([]c06Target, [][]c06Reply, [][]c06Reply) {
	if c06Cache.ts == nil {
		ts := c06Targets(x)
		for ti := range ts {
			f := c06Replies(x, ts, ti)
			l := c06LaterReplies(ts, ti)
			for _, rs := range [][]c06Reply{f, l} {
				for i := range rs {
					rs[i].valid = !rs[i].close && chunkref.Valid(ts[ti].addr, rs[i].data)
				}
			}
			c06Cache.first = append(c06Cache.first, f)
			c06Cache.later = append(c06Cache.later, l)
		}
		c06Cache.ts = ts
	}
	return c06Cache.ts, c06Cache.first, c06Cache.later
}

func c06FlipPositions(n int) []int {
	if n <= 260 {
		r := make([]int, n)
		for i := range r {
			r[i] = i
		}
		return r
	}
	cand := []int{0, 7, 8, 9, 31, 32, 39, 40, 63, 64, 96, 97, 104, 105, n / 2, n - 65, n - 33, n - 32, n - 2, n - 1}
	seen := map[int]bool{}
	var r []int
	for _, c := range cand {
		if c >= 0 && c < n && !seen[c] {
			seen[c] = true
			r = append(r, c)
		}
	}
	return r
}

// c06Replies: the adversary's first-reply alphabet for target ti.
func c06Replies(x *mc.X, ts []c06Target, ti int) []c06Reply {
	t := ts[ti]
	C := boson.ChunkSize
	n := len(t.data)
	cp := func(b []byte) []byte { return append([]byte{}, b...) }
	rs := []c06Reply{{name: "honest", data: cp(t.data)}}
	seen := map[int]bool{}
	for _, k := range []int{0, 1, 7, 8, 9, 96, 97, 104, 105, n - 1} {
		if k >= 0 && k < n && !seen[k] {
			seen[k] = true
			rs = append(rs, c06Reply{name: fmt.Sprintf("truncate-to-%d", k), data: cp(t.data[:k])})
		}
	}
	rs = append(rs,
		c06Reply{name: "append-00", data: append(cp(t.data), 0)},
		c06Reply{name: "append-01", data: append(cp(t.data), 1)},
		c06Reply{name: "append-32-zero", data: append(cp(t.data), make([]byte, 32)...)},
		c06Reply{name: "append-32-nonzero", data: append(cp(t.data), c06Pattern(32, 3, 1)...)},
	)
	// zero-extension up to and beyond the chunk capacity: the prefix of
	// capacity length still hashes to the requested address.
	if n < C+8 {
		rs = append(rs, c06Reply{name: "zero-extend-to-capacity", data: append(cp(t.data), make([]byte, C+8-n)...)})
	}
	if n <= C+8 {
		rs = append(rs,
			c06Reply{name: "zero-extend-to-capacity+1", data: append(cp(t.data), make([]byte, C+9-n)...)},
			c06Reply{name: "extend-to-capacity+1-nonzero-last", data: append(append(cp(t.data), make([]byte, C+8-n)...), 0x77)},
			c06Reply{name: "zero-extend-to-capacity+105", data: append(cp(t.data), make([]byte, C+8+105-n)...)},
		)
	}
	for _, p := range c06FlipPositions(n) {
		for _, m := range []byte{0x01, 0x80} {
			d := cp(t.data)
			d[p] ^= m
			rs = append(rs, c06Reply{name: fmt.Sprintf("flip@%d^%#02x", p, m), data: d})
		}
	}
	for j, o := range ts {
		if j != ti {
			rs = append(rs, c06Reply{name: "other-chunk-" + o.name, data: cp(o.data)})
		}
	}
	if t.name != "soc" {
		// a correctly signed SOC wrapping the requested CAC: valid, but for another address
		w := c06SOC(x, 0, 0xb2, t)
		rs = append(rs, c06Reply{name: "soc-wrapping-requested-cac", data: w.data})
	} else {
		innerLen := n - 97
		innerT := c06Target{addr: chunkref.BMT(t.data[97:]), data: cp(t.data[97:])}
		rs = append(rs,
			c06Reply{name: "soc-inner-cac-only", data: cp(t.data[97:])},
			c06Reply{name: "soc-same-id-other-owner", data: c06SOC(x, 1, 0xa1, innerT).data},
			c06Reply{name: "soc-other-id-same-owner", data: c06SOC(x, 0, 0xa2, innerT).data},
			c06Reply{name: "soc-same-id-owner-other-payload", data: c06SOC(x, 0, 0xa1, c06CAC(x, 5, []byte("other"))).data},
		)
		_ = innerLen
	}
	rs = append(rs, c06Reply{name: "empty-delivery", data: nil}, c06Reply{name: "close-without-reply", close: true})
	return rs
}

// later replies (after a rejected one) come from a reduced alphabet
func c06LaterReplies(ts []c06Target, ti int) []c06Reply {
	t := ts[ti]
	cp := func(b []byte) []byte { return append([]byte{}, b...) }
	fl := cp(t.data)
	fl[len(fl)-1] ^= 0x01
	o := ts[(ti+1)%len(ts)]
	return []c06Reply{
		{name: "honest", data: cp(t.data)},
		{name: "flip@last^0x01", data: fl},
		{name: "other-chunk-" + o.name, data: cp(o.data)},
		{name: "close-without-reply", close: true},
	}
}

// ---------------------------------------------------------------- adversary

type c06Ask struct {
	req   pb.RequestChunk
	reply chan c06Reply
}

type c06Adversary struct {
	ask chan c06Ask
}

func (a *c06Adversary) protocol() p2p.ProtocolSpec {
	return p2p.ProtocolSpec{Name: protocolName, Version: protocolVersion, StreamSpecs: []p2p.StreamSpec{{
		Name: streamName,
		Handler: func(ctx context.Context, p p2p.Peer, stream p2p.Stream) error {
			w, r := protobuf.NewWriterAndReader(stream)
			q := c06Ask{reply: make(chan c06Reply, 1)}
			if err := r.ReadMsgWithContext(ctx, &q.req); err != nil {
				_ = stream.Reset()
				return err
			}
			a.ask <- q
			rep := <-q.reply
			if !rep.close {
				if err := w.WriteMsgWithContext(ctx, &pb.Delivery{Data: rep.data}); err != nil {
					_ = stream.Reset()
					return err
				}
			}
			return stream.Close()
		},
	}}}
}

func c06JoinMW(wg *sync.WaitGroup) p2p.HandlerMiddleware {
	return func(h p2p.HandlerFunc) p2p.HandlerFunc {
		return func(ctx context.Context, p p2p.Peer, s p2p.Stream) error {
			defer wg.Done()
			return h(ctx, p, s)
		}
	}
}

// c06Streamer counts the streams opened (wg.Add before the handler goroutine starts).
type c06Streamer struct {
	*streamtest.Recorder
	wg *sync.WaitGroup
}

func (s *c06Streamer) NewStream(ctx context.Context, addr boson.Address, h p2p.Headers, pn, pv, sn string) (p2p.Stream, error) {
	s.wg.Add(1)
	st, err := s.Recorder.NewStream(ctx, addr, h, pn, pv, sn)
	if err != nil {
		s.wg.Done()
	}
	return st, err
}

type c06Node struct {
	svc   *Service
	store *c06Store
	acct  *c06Accounting
	ci    *c06ChunkInfo
}

func c06NewNode(addr boson.Address, streamer p2p.Streamer) *c06Node {
	n := &c06Node{store: &c06Store{MockStorer: storemock.NewStorer()}, acct: &c06Accounting{}, ci: &c06ChunkInfo{}}
	n.svc = New(addr, streamer, c06RouteTab{}, n.store, true, logging.New(io.Discard, 0), nil, n.acct, nil)
	n.svc.Config(n.ci)
	return n
}

var c06Modes = []string{"from-node", "targets-1", "chunkinfo-route", "two-hop", "targets-2"}

// State of the local stores (client and forwarder) with respect to the
// requested chunk: absent; the honest chunk already present before the request
// (e.g. fetched for another root - singleflight keys contain the root/target, so
// such requests are not merged); a different chunk present; the honest chunk
// arriving in the store while the request is in flight (put right before the
// adversary's first reply is delivered). In two-hop mode "present-before" and
// "arrives-in-flight" concern both nodes; "present-at-client-only" is extra.
var c06StoreStates = []string{"absent", "present-before", "other-chunk-present", "arrives-in-flight"}

func TestVerifC06(t *testing.T) {
	geom := fmt.Sprintf("branches=%d", boson.Branches)
	maxReplies := mc.Pick(2, 4)
	mc.Run(t, mc.Config{ID: "C06", Name: "C06-retrieval-" + geom, MaxDev: -1, Params: map[string]interface{}{
		"geometry":      geom,
		"targets":       "cac-small, cac-full, cac-intermediate, cac-zero-tail, soc",
		"modes":         c06Modes,
		"store_states":  c06StoreStates,
		"first_reply":   "honest; truncate to {0,1,7,8,9,96,97,104,105,len-1}; append 00/01/32 zero/32 non-zero; zero-extend to capacity, capacity+1, capacity+1 with non-zero last, capacity+105; every single-byte flip with masks {01,80} (all positions up to 260 bytes, else a boundary grid); every other target's chunk; SOC wrapping the requested CAC / SOC variants (inner only, other owner, other id, other payload); empty Delivery; close without reply",
		"later_replies": "honest, flip of last byte, another valid chunk, close without reply",
		"max_replies":   maxReplies,
	}}, func(x *mc.X) {
		ts, firsts, laters := c06Alphabet(x)
		// large arities first (sharding)
		ti := x.Choose(len(ts))
		first, later := firsts[ti], laters[ti]
		ri := x.Choose(len(first))
		mode := c06Modes[x.Choose(len(c06Modes))]
		states := c06StoreStates
		if mode == "two-hop" {
			states = append(append([]string{}, c06StoreStates...), "present-at-client-only")
		}
		storeState := states[x.Choose(len(states))]
		tgt := ts[ti]
		a := boson.NewAddress(tgt.addr)
		root := boson.MustParseHexAddress("3300")
		x.Logf("request %s (%d bytes) mode %s, local store: %s", tgt.name, len(tgt.data), mode, storeState)

		clientAddr := boson.MustParseHexAddress("c1c1c1c1")
		fwdAddr := boson.MustParseHexAddress("f0f0f0f0")
		advAddr := boson.MustParseHexAddress("adadadad")
		adv2Addr := boson.MustParseHexAddress("adadad02")

		adv := &c06Adversary{ask: make(chan c06Ask)}
		var wg sync.WaitGroup
		var client, fwd *c06Node
		var clientRec *streamtest.Recorder
		if mode == "two-hop" {
			recF := streamtest.New(streamtest.WithProtocols(adv.protocol()), streamtest.WithBaseAddr(fwdAddr), streamtest.WithMiddlewares(c06JoinMW(&wg)))
			fwd = c06NewNode(fwdAddr, &c06Streamer{recF, &wg})
			clientRec = streamtest.New(streamtest.WithProtocols(fwd.svc.Protocol()), streamtest.WithBaseAddr(clientAddr), streamtest.WithMiddlewares(c06JoinMW(&wg)))
		} else {
			clientRec = streamtest.New(streamtest.WithProtocols(adv.protocol()), streamtest.WithBaseAddr(clientAddr), streamtest.WithMiddlewares(c06JoinMW(&wg)))
		}
		client = c06NewNode(clientAddr, &c06Streamer{clientRec, &wg})
		// pre-existing store content goes straight into the underlying store (not a Put of the service under test)
		preload := func(t c06Target, nodes ...*c06Node) {
			if len(nodes) == 0 {
				nodes = []*c06Node{client, fwd}
			}
			for _, n := range nodes {
				if n != nil {
					_, err := n.store.MockStorer.Put(context.Background(), storage.ModePutUpload, boson.NewChunk(boson.NewAddress(t.addr), append([]byte{}, t.data...)))
					x.NoErr(err, "preload")
				}
			}
		}
		switch storeState {
		case "present-before":
			preload(tgt)
		case "present-at-client-only":
			preload(tgt, client)
		case "other-chunk-present":
			preload(ts[(ti+1)%len(ts)])
		}

		type result struct {
			ch  boson.Chunk
			err error
			pan interface{}
		}
		done := make(chan result, 1)
		go func() {
			var r result
			r.pan = mc.Try(func() {
				ctx := context.Background()
				switch mode {
				case "from-node":
					r.ch, r.err = client.svc.RetrieveChunkFromNode(ctx, advAddr, root, a)
				case "targets-1":
					r.ch, r.err = client.svc.RetrieveChunk(sctx.SetTargets(ctx, advAddr.String()), root, a)
				case "targets-2":
					r.ch, r.err = client.svc.RetrieveChunk(sctx.SetTargets(ctx, advAddr.String()+","+adv2Addr.String()), root, a)
				case "chunkinfo-route":
					client.ci.routes = []aco.Route{aco.NewRoute(advAddr, advAddr)}
					r.ch, r.err = client.svc.RetrieveChunk(ctx, root, a)
				case "two-hop":
					client.ci.routes = []aco.Route{aco.NewRoute(fwdAddr, advAddr)}
					r.ch, r.err = client.svc.RetrieveChunk(ctx, root, a)
				}
			})
			done <- r
		}()

		var res result
		nReplies, anyValid, adversarial := 0, false, false
	loop:
		for {
			select {
			case q := <-adv.ask:
				if !bytes.Equal(q.req.ChunkAddr, tgt.addr) {
					x.Broken("adversary asked for %x, expected %x", q.req.ChunkAddr, tgt.addr)
				}
				var rep c06Reply
				switch {
				case nReplies == 0:
					rep = first[ri]
					if storeState == "arrives-in-flight" {
						preload(tgt)
					}
				case nReplies < maxReplies:
					rep = later[x.Choose(len(later))]
				default:
					rep = c06Reply{name: "close-without-reply", close: true}
				}
				nReplies++
				v := rep.valid
				anyValid = anyValid || v
				if !rep.close && len(rep.data) > 0 && !bytes.Equal(rep.data, tgt.data) {
					adversarial = true
				}
				x.Logf("reply %d: %s (%d bytes, reference-valid=%v)", nReplies, rep.name, len(rep.data), v)
				if nReplies == 1 {
					if v && !bytes.Equal(rep.data, tgt.data) {
						x.Tag("valid-variant-of-requested-chunk")
					}
				}
				q.reply <- rep
			case res = <-done:
				break loop
			}
		}
		wg.Wait() // all handler goroutines (adversary and forwarder) have returned

		if res.pan != nil {
			x.Fail("panic-retrieval-client", "retrieval panicked: %v", res.pan)
		}
		if adversarial {
			x.Nontrivial()
		}

		checkPuts := func(who string, n *c06Node) int {
			n.store.mu.Lock()
			defer n.store.mu.Unlock()
			for _, p := range n.store.puts {
				if !chunkref.Valid(p.addr, p.data) {
					x.Fail("stored-invalid-chunk-"+who, "%s stored %d bytes under %x: neither a valid CAC nor a valid SOC for that address", who, len(p.data), p.addr)
				}
				if !bytes.Equal(p.addr, tgt.addr) {
					x.Fail("stored-under-unrequested-address-"+who, "%s stored a chunk under %x, requested %x", who, p.addr, tgt.addr)
				}
			}
			return len(n.store.puts)
		}
		nput := checkPuts("client", client)
		// whatever the stores hold under the requested address at the end must be valid too
		for _, wn := range []struct {
			who string
			n   *c06Node
		}{{"client", client}, {"forwarder", fwd}} {
			who, n := wn.who, wn.n
			if n == nil {
				continue
			}
			if ch, err := n.store.MockStorer.Get(context.Background(), storage.ModeGetRequest, a); err == nil && !chunkref.Valid(tgt.addr, ch.Data()) {
				x.Fail("store-holds-invalid-chunk-"+who, "%s's store holds %d invalid bytes under %x", who, len(ch.Data()), tgt.addr)
			}
		}
		if nReplies == 0 {
			x.Tag("served-without-asking-the-peer")
		}
		if fwd != nil {
			nput += checkPuts("forwarder", fwd)
			// what the forwarder handed to the requesting peer
			recs, err := clientRec.Records(fwdAddr, protocolName, protocolVersion, streamName)
			x.NoErr(err, "forwarder records")
			for _, rec := range recs {
				out := rec.Out()
				if len(out) == 0 {
					continue
				}
				var d pb.Delivery
				if err := protobuf.NewReader(bytes.NewReader(out)).ReadMsg(&d); err != nil {
					x.Broken("cannot parse forwarder delivery: %v", err)
				}
				if !chunkref.Valid(tgt.addr, d.Data) {
					x.Fail("forwarded-invalid-chunk", "forwarder delivered %d bytes for %x: not a valid chunk for that address", len(d.Data), tgt.addr)
				}
				x.Tag("forwarder-delivered")
			}
		}
		if res.err == nil {
			if res.ch == nil {
				x.Fail("nil-chunk-without-error", "RetrieveChunk returned (nil, nil)")
			}
			if !res.ch.Address().Equal(a) || !chunkref.Valid(tgt.addr, res.ch.Data()) {
				x.Fail("returned-invalid-chunk", "RetrieveChunk returned %d bytes for %x: neither a valid CAC nor a valid SOC for that address (last reply above)", len(res.ch.Data()), tgt.addr)
			}
			x.Outcome(fmt.Sprintf("%s: accepted/replies=%d/puts=%d/credits=%d", storeState, nReplies, nput, client.acct.credit))
		} else {
			if anyValid {
				x.Tag("valid-reply-yet-error")
			}
			x.Outcome(fmt.Sprintf("%s: rejected/replies=%d/puts=%d/credits=%d", storeState, nReplies, nput, client.acct.credit))
		}
		if !anyValid {
			// informational (not demanded by the statement): nothing is credited or announced for invalid data
			if client.acct.credit > 0 {
				x.Tag("credit-for-invalid-reply")
			}
			if len(client.ci.retrieved) > 0 {
				x.Tag("announced-invalid-chunk")
			}
		}
	})
}
