//go:build verif
// +build verif

// Package netsim is a tiny in-process message-delivery simulator for the
// model-checking harnesses: N real protocol services are wired to a queueing
// p2p.Streamer. Opening a stream does not deliver anything; it creates an
// in-flight message that collects whatever the sender writes. The harness
// chooses (through mc.X.Choose / Deviate) which in-flight message is delivered
// next - by running the destination's real registered handler synchronously on
// an in-memory stream - or dropped.
//
// Mounted at github.com/gauss-project/aurorafs/pkg/zzverif/netsim.
package netsim

import (
	"bytes"
	"context"
	"errors"
	"fmt"
	"io"
	"sort"
	"sync"
	"time"

	"github.com/gauss-project/aurorafs/pkg/boson"
	"github.com/gauss-project/aurorafs/pkg/p2p"
	ma "github.com/multiformats/go-multiaddr"
)

// Msg is one opened stream together with the bytes its opener wrote to it.
type Msg struct {
	Seq                       int // creation order (not canonical: depends on iteration orders inside the sender)
	From, To                  boson.Address
	Protocol, Version, Stream string
	Headers                   p2p.Headers
	WasReset                  bool // the sender reset the stream after opening it

	mu     sync.Mutex
	buf    bytes.Buffer
	closed bool // the sender closed its side (guarded by Net.mu)
}

// Data returns the bytes written by the sender so far.
func (m *Msg) Data() []byte {
	m.mu.Lock()
	defer m.mu.Unlock()
	return append([]byte(nil), m.buf.Bytes()...)
}

// Dial records one NewStream call (also the refused ones).
type Dial struct {
	From, To boson.Address
	Stream   string
	Kind     string // "stream", "relay", "connchain"
	Err      error
}

// Net is the simulated network.
type Net struct {
	mu    sync.Mutex
	nodes map[string]map[string]p2p.HandlerFunc // overlay -> "proto/version/stream" -> handler
	queue []*Msg
	seq   int
	dials []Dial
	all   []*Msg     // every message ever opened
	cond  *sync.Cond // signalled when a sender closes a stream

	// Canon gives the canonical text of a message (timestamps, signatures etc.
	// removed). It orders InFlight and identifies interchangeable messages.
	Canon func(*Msg) string
	// DialErr, when set and returning non-nil, makes the sender's NewStream fail.
	DialErr func(from, to boson.Address, protocol, version, stream string) error
}

// New creates an empty network.
func New(canon func(*Msg) string) *Net {
	if canon == nil {
		canon = func(m *Msg) string {
			return fmt.Sprintf("%s>%s %s %x", m.From, m.To, m.Stream, m.Data())
		}
	}
	n := &Net{nodes: map[string]map[string]p2p.HandlerFunc{}, Canon: canon}
	n.cond = sync.NewCond(&n.mu)
	return n
}

// WaitClosed blocks until the node `from` has opened and closed (Close/FullClose, i.e.
// finished writing) at least k streams, or until done is closed. It is the
// synchronisation point for code under test that sends from its own goroutine
// (e.g. a handler blocked in a request/response exchange): no sleeping, no polling.
// It reports whether the k streams were seen.
func (n *Net) WaitClosed(from boson.Address, k int, done <-chan struct{}) bool {
	stop := make(chan struct{})
	defer close(stop)
	go func() {
		select {
		case <-done:
			n.mu.Lock()
			n.cond.Broadcast()
			n.mu.Unlock()
		case <-stop:
		}
	}()
	n.mu.Lock()
	defer n.mu.Unlock()
	for {
		c := 0
		for _, m := range n.all {
			if m.closed && m.From.Equal(from) {
				c++
			}
		}
		if c >= k {
			return true
		}
		select {
		case <-done:
			return false
		default:
		}
		n.cond.Wait()
	}
}

func (n *Net) markClosed(m *Msg) {
	n.mu.Lock()
	m.closed = true
	n.cond.Broadcast()
	n.mu.Unlock()
}

func hkey(protocol, version, stream string) string { return protocol + "/" + version + "/" + stream }

// AddNode registers the protocol handlers of the node with the given overlay.
func (n *Net) AddNode(addr boson.Address, specs ...p2p.ProtocolSpec) {
	n.mu.Lock()
	defer n.mu.Unlock()
	hs := n.nodes[addr.ByteString()]
	if hs == nil {
		hs = map[string]p2p.HandlerFunc{}
		n.nodes[addr.ByteString()] = hs
	}
	for _, sp := range specs {
		for _, ss := range sp.StreamSpecs {
			hs[hkey(sp.Name, sp.Version, ss.Name)] = ss.Handler
		}
	}
}

// Streamer returns the queueing p2p.Streamer (also a p2p.StreamerPinger) of a node.
func (n *Net) Streamer(self boson.Address) *Streamer { return &Streamer{net: n, self: self} }

// InFlight returns the in-flight messages in canonical order.
func (n *Net) InFlight() []*Msg {
	n.mu.Lock()
	out := append([]*Msg(nil), n.queue...)
	n.mu.Unlock()
	keys := make(map[*Msg]string, len(out))
	for _, m := range out {
		keys[m] = n.Canon(m)
	}
	sort.SliceStable(out, func(i, j int) bool {
		if keys[out[i]] != keys[out[j]] {
			return keys[out[i]] < keys[out[j]]
		}
		return out[i].Seq < out[j].Seq
	})
	return out
}

// Dials returns every stream-open attempt so far, in call order.
func (n *Net) Dials() []Dial {
	n.mu.Lock()
	defer n.mu.Unlock()
	return append([]Dial(nil), n.dials...)
}

func (n *Net) remove(m *Msg) bool {
	n.mu.Lock()
	defer n.mu.Unlock()
	for i, q := range n.queue {
		if q == m {
			n.queue = append(n.queue[:i], n.queue[i+1:]...)
			return true
		}
	}
	return false
}

// Drop loses an in-flight message.
func (n *Net) Drop(m *Msg) bool { return n.remove(m) }

// ErrNoHandler is returned by Deliver when the destination has no such handler.
var ErrNoHandler = errors.New("netsim: destination has no handler for the stream")

// Deliver takes m out of the network and runs the destination's real handler on
// it, synchronously, with the peer set to the sender. It returns what the
// handler wrote back on the stream and the handler's error.
func (n *Net) Deliver(ctx context.Context, m *Msg) (reply []byte, err error) {
	if !n.remove(m) {
		return nil, errors.New("netsim: message is not in flight")
	}
	n.mu.Lock()
	h := n.nodes[m.To.ByteString()][hkey(m.Protocol, m.Version, m.Stream)]
	n.mu.Unlock()
	if h == nil {
		return nil, ErrNoHandler
	}
	st := &inStream{in: bytes.NewReader(m.Data()), headers: m.Headers}
	err = h(ctx, p2p.Peer{Address: m.From}, st)
	return st.out.Bytes(), err
}

// Streamer is the sending side of one node.
type Streamer struct {
	net  *Net
	self boson.Address
}

var _ p2p.StreamerPinger = (*Streamer)(nil)

func (s *Streamer) open(kind string, to boson.Address, h p2p.Headers, protocol, version, stream string) (p2p.Stream, error) {
	n := s.net
	n.mu.Lock()
	defer n.mu.Unlock()
	var err error
	if n.DialErr != nil {
		err = n.DialErr(s.self, to, protocol, version, stream)
	}
	n.dials = append(n.dials, Dial{From: s.self, To: to, Stream: stream, Kind: kind, Err: err})
	if err != nil {
		return nil, err
	}
	n.seq++
	m := &Msg{Seq: n.seq, From: s.self, To: to, Protocol: protocol, Version: version, Stream: stream, Headers: h}
	n.queue = append(n.queue, m)
	n.all = append(n.all, m)
	return &outStream{m: m, net: n}, nil
}

// NewStream never blocks: it creates an in-flight message.
func (s *Streamer) NewStream(_ context.Context, to boson.Address, h p2p.Headers, protocol, version, stream string) (p2p.Stream, error) {
	return s.open("stream", to, h, protocol, version, stream)
}

func (s *Streamer) NewRelayStream(_ context.Context, to boson.Address, h p2p.Headers, protocol, version, stream string, _ bool) (p2p.Stream, error) {
	return s.open("relay", to, h, protocol, version, stream)
}

func (s *Streamer) NewConnChainRelayStream(_ context.Context, to boson.Address, h p2p.Headers, protocol, version, stream string) (p2p.Stream, error) {
	return s.open("connchain", to, h, protocol, version, stream)
}

func (s *Streamer) Ping(context.Context, ma.Multiaddr) (time.Duration, error) { return 0, nil }

// outStream: what the opener of a stream holds. Writes go into the message;
// there is nothing to read (queued delivery is one-way).
type outStream struct {
	m   *Msg
	net *Net
}

func (o *outStream) Write(p []byte) (int, error) {
	o.m.mu.Lock()
	defer o.m.mu.Unlock()
	return o.m.buf.Write(p)
}
func (o *outStream) Read([]byte) (int, error)     { return 0, io.EOF }
func (o *outStream) Close() error                 { o.net.markClosed(o.m); return nil }
func (o *outStream) FullClose() error             { o.net.markClosed(o.m); return nil }
func (o *outStream) Headers() p2p.Headers         { return o.m.Headers }
func (o *outStream) ResponseHeaders() p2p.Headers { return nil }
func (o *outStream) Reset() error {
	o.m.mu.Lock()
	o.m.WasReset = true
	o.m.mu.Unlock()
	return nil
}

// inStream: what the destination handler gets.
type inStream struct {
	in      *bytes.Reader
	out     bytes.Buffer
	headers p2p.Headers
}

func (s *inStream) Read(p []byte) (int, error)   { return s.in.Read(p) }
func (s *inStream) Write(p []byte) (int, error)  { return s.out.Write(p) }
func (s *inStream) Close() error                 { return nil }
func (s *inStream) FullClose() error             { return nil }
func (s *inStream) Reset() error                 { return nil }
func (s *inStream) Headers() p2p.Headers         { return s.headers }
func (s *inStream) ResponseHeaders() p2p.Headers { return nil }

// NewInStream builds a receiving-side in-memory stream carrying data, for
// harnesses that call a handler directly. Reply returns what the handler wrote.
func NewInStream(data []byte, h p2p.Headers) (p2p.Stream, func() []byte) {
	st := &inStream{in: bytes.NewReader(data), headers: h}
	return st, func() []byte { return st.out.Bytes() }
}
