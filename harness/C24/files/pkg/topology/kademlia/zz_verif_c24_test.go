//go:build verif
// +build verif

package kademlia

// C24: the topology tracks exactly the live connections.
// Operation sequences on a real Kad (manage loop not started) against a
// reference set "full nodes connected and not since disconnected".

import (
	"context"
	"errors"
	"fmt"
	"io"
	"sort"
	"strings"
	"testing"
	"time"

	"github.com/gauss-project/aurorafs/pkg/addressbook"
	"github.com/gauss-project/aurorafs/pkg/aurora"
	"github.com/gauss-project/aurorafs/pkg/boson"
	discmock "github.com/gauss-project/aurorafs/pkg/discovery/mock"
	"github.com/gauss-project/aurorafs/pkg/logging"
	"github.com/gauss-project/aurorafs/pkg/p2p"
	p2pmock "github.com/gauss-project/aurorafs/pkg/p2p/mock"
	pingpongmock "github.com/gauss-project/aurorafs/pkg/pingpong/mock"
	"github.com/gauss-project/aurorafs/pkg/shed"
	shedldb "github.com/gauss-project/aurorafs/pkg/shed/leveldb"
	mockstate "github.com/gauss-project/aurorafs/pkg/statestore/mock"
	"github.com/gauss-project/aurorafs/pkg/subscribe"
	"github.com/gauss-project/aurorafs/pkg/topology"
	"github.com/gauss-project/aurorafs/pkg/topology/model"
	"github.com/gauss-project/aurorafs/pkg/zzverif/mc"
)

var c24Base = func() []byte {
	b := make([]byte, 32)
	for i := range b {
		b[i] = byte(0x77 ^ i*5)
	}
	return b
}()

func c24Addr(bin, serial int) boson.Address {
	b := append([]byte{}, c24Base...)
	b[bin/8] ^= 0x80 >> uint(bin%8)
	b[20] ^= byte(serial + 1)
	return boson.NewAddress(b)
}

type c24Peer struct {
	name string
	addr boson.Address
	bin  int
	boot bool
	full bool // boot node that also carries the FullNode bit
}

func c24P(name string, bin, serial int) *c24Peer {
	return &c24Peer{name: name, addr: c24Addr(bin, serial), bin: bin}
}

var (
	// preloaded in scenario "loaded": all reported public -> depth 2, bin 1 holds overSaturation-1 reachable peers
	c24Pre = []*c24Peer{c24P("a0", 0, 0), c24P("x1", 1, 1), c24P("x2", 1, 2), c24P("x3", 1, 3), c24P("x4", 1, 4), c24P("z1", 2, 5), c24P("z2", 2, 6), c24P("z3", 2, 7)}
	// free peers
	c24U    = c24P("u", 1, 10)
	c24W    = c24P("w", 1, 11)
	c24B    = c24P("b", 0, 12)
	c24Boot = &c24Peer{name: "BOOT", addr: c24Addr(1, 13), bin: 1, boot: true}
	// a boot node as the product starts it: it advertises the BootNode AND the FullNode bit
	c24BootFull = &c24Peer{name: "BOOT+FULL", addr: c24Addr(0, 14), bin: 0, boot: true, full: true}
	c24X1       = c24Pre[1]
	c24A0       = c24Pre[0]
	// peers that are only made known (AddPeers), never connected
	c24K0  = c24P("k0", 0, 20) // preloaded as known+public in scenario "diverged"
	c24G0  = c24P("g0", 0, 21)
	c24G3  = c24P("g3", 3, 22)
	c24All = append(append([]*c24Peer{}, c24Pre...), c24U, c24W, c24B, c24Boot, c24BootFull, c24K0, c24G0, c24G3)
)

// reference depth of a peer set with radius MaxPO: the largest d allowed by the clauses of C22
// (at most nnLowWatermark peers -> 0; >= 3 reachable peers in bins >= d; no bin < d without a peer;
// every bin < d holds >= quickSaturationPeers reachable peers). bins[b] = {peers, reachable peers}.
func c24RefDepth(bins map[int][2]int) int {
	total := 0
	for _, b := range bins {
		total += b[0]
	}
	if total <= nnLowWatermark {
		return 0
	}
	best := 0
	for d := 1; d <= int(boson.MaxPO); d++ {
		if bins[d-1][0] == 0 || bins[d-1][1] < quickSaturationPeers {
			break
		}
		n := 0
		for b, c := range bins {
			if b >= d {
				n += c[1]
			}
		}
		if n >= 3 {
			best = d
		}
	}
	return best
}

func c24Name(a boson.Address) string {
	for _, p := range c24All {
		if p.addr.Equal(a) {
			return p.name
		}
	}
	return "?" + a.String()
}

const c24Driver = "verifc24leveldb"
const c24DriverCfg = `:{"WriteBuffer":16384,"BlockCacheCapacity":16384}`

func init() { shed.Register(c24Driver, shedldb.Driver{}) }

var c24SubPub = subscribe.NewSubPub()

const c24BinMaxPeers = 5 // -> overSaturation 5, saturation 2, quickSaturation 1

func c24NewKad(x *mc.X) (*Kad, func()) {
	overSaturationPeers, saturationPeers, quickSaturationPeers = 20, 8, 4
	db, err := shed.NewDB("", &shed.Options{Driver: c24Driver + c24DriverCfg})
	x.NoErr(err, "shed.NewDB")
	ab := addressbook.New(mockstate.NewStateStore())
	p2ps := p2pmock.New(p2pmock.WithDisconnectFunc(func(boson.Address, string) error { return nil }))
	disc := discmock.NewDiscovery()
	disc.SetHive2(true)
	ppm := pingpongmock.New(func(context.Context, boson.Address, ...string) (time.Duration, error) { return 0, nil })
	k, err := New(boson.NewAddress(append([]byte{}, c24Base...)), ab, disc, p2ps, ppm, nil, nil, db,
		logging.New(io.Discard, 0), c24SubPub, Options{NodeMode: aurora.NewModel().SetMode(aurora.FullNode), BinMaxPeers: c24BinMaxPeers})
	x.NoErr(err, "kademlia.New")
	if overSaturationPeers != 5 {
		x.Broken("BinMaxPeers=5 gives overSaturationPeers=%d", overSaturationPeers)
	}
	return k, func() {
		k.bgBroadcastCancel()
		_ = k.blocker.Close()
		_ = db.Close()
		overSaturationPeers, saturationPeers, quickSaturationPeers = 20, 8, 4
	}
}

func c24Mode(p *c24Peer) aurora.Model {
	if p.boot {
		m := aurora.NewModel().SetMode(aurora.BootNode)
		if p.full {
			m = m.SetMode(aurora.FullNode)
		}
		return m
	}
	return aurora.NewModel().SetMode(aurora.FullNode)
}

type c24Op struct {
	kind string // in in-force out disc force-disc public add protect
	peer *c24Peer
	list []*c24Peer
}

func (o c24Op) String() string {
	switch o.kind {
	case "in":
		return "Connected(" + o.peer.name + ", force=false)"
	case "in-force":
		return "Connected(" + o.peer.name + ", force=true)"
	case "out":
		return "Outbound(" + o.peer.name + ")"
	case "disc":
		return "Disconnected(" + o.peer.name + ")"
	case "force-disc":
		return "DisconnectForce(" + o.peer.name + ")"
	case "public":
		return "Reachable(" + o.peer.name + ", public)"
	case "add":
		return "AddPeers(" + o.peer.name + ")"
	default:
		var n []string
		for _, p := range o.list {
			n = append(n, p.name)
		}
		return "RefreshProtectPeer([" + strings.Join(n, ",") + "])"
	}
}

// operations per scenario (0 loaded, 1 diverged, 2 empty). The loaded scenario lets a preloaded
// shallow peer leave (it stays known); the diverged and empty ones add known-only peers.
func c24Ops(sc int) []c24Op {
	var ops []c24Op
	free := []*c24Peer{c24U, c24W, c24B}
	if sc == 1 {
		free = []*c24Peer{c24U, c24W}
	}
	for _, p := range free {
		for _, k := range []string{"in", "in-force", "out", "disc", "force-disc", "public"} {
			if p == c24B && (k == "in-force" || k == "force-disc") {
				continue // exercised on u and w
			}
			if sc == 1 && k == "force-disc" && p == c24W {
				continue
			}
			ops = append(ops, c24Op{kind: k, peer: p})
		}
	}
	ops = append(ops, c24Op{kind: "disc", peer: c24X1}, c24Op{kind: "force-disc", peer: c24X1},
		c24Op{kind: "protect", list: []*c24Peer{c24W}}, c24Op{kind: "protect", list: nil})
	if sc != 1 {
		ops = append(ops, c24Op{kind: "out", peer: c24Boot}, c24Op{kind: "disc", peer: c24Boot},
			c24Op{kind: "out", peer: c24BootFull}, c24Op{kind: "disc", peer: c24BootFull})
	}
	if sc == 0 {
		ops = append(ops, c24Op{kind: "disc", peer: c24A0})
	} else {
		ops = append(ops, c24Op{kind: "add", peer: c24G0}, c24Op{kind: "public", peer: c24G0}, c24Op{kind: "add", peer: c24G3})
	}
	return ops
}

func TestVerifC24(t *testing.T) {
	depth := mc.Pick(4, 6)
	opsBy := [][]c24Op{c24Ops(0), c24Ops(1), c24Ops(2)}
	opNames := map[string][]string{}
	for i, name := range []string{"loaded", "diverged", "empty"} {
		for _, o := range opsBy[i] {
			opNames[name] = append(opNames[name], o.String())
		}
	}
	scenarios := []string{
		"loaded: a0 (bin 0), x1..x4 (bin 1), z1..z3 (bin 2) connected inbound and reported public (depth 2, bin 1 one short of oversaturation)",
		"diverged: k0 (bin 0) only known (AddPeers) and reported public, x1..x4 (bin 1), z1..z3 (bin 2) connected inbound and public (depth of the connected set 0, depth over the known peers 2)",
		"empty"}

	mc.Run(t, mc.Config{ID: "C24", Name: "C24-opseq", MaxDev: -1, Params: map[string]interface{}{
		"depth":                     fmt.Sprintf("%d (scenario empty: %d)", depth, depth-1),
		"scenarios":                 scenarios,
		"operations":                opNames,
		"peers":                     "u, w, x1..x4, BOOT (boot node, BootNode bit only): bin 1; BOOT+FULL (boot node with BootNode and FullNode bits), b, a0, k0, g0: bin 0; z1..z3: bin 2; g3: bin 3 (k0, g0, g3 are only ever made known, never connected)",
		"thresholds":                "Options.BinMaxPeers=5 -> overSaturation 5, saturation 2, quickSaturation 1",
		"observed_after_every_step": "EachPeer, EachPeerRev, EachKnownPeer, Snapshot (Connected, Population, per-bin lists), SnapshotConnected, Pick for u, w, b",
		"pruning":                   "canonical state = ordered connected/known bins, reachability of every peer, protect list, depth",
	}}, func(x *mc.X) {
		sc := x.Choose(len(scenarios))
		k, cleanup := c24NewKad(x)
		defer cleanup()
		ctx := context.Background()
		conn := map[string]bool{}   // reference: connected full nodes
		public := map[string]bool{} // reported public
		var protect []*c24Peer

		if sc == 1 {
			k.AddPeers(c24K0.addr)
			k.Reachable(c24K0.addr, p2p.ReachabilityStatusPublic)
			public[c24K0.name] = true
		}
		if sc <= 1 {
			for _, p := range c24Pre {
				if sc == 1 && p == c24A0 {
					continue
				}
				x.NoErr(k.Connected(ctx, p2p.Peer{Address: p.addr, Mode: c24Mode(p)}, false), "preload Connected "+p.name)
				k.Reachable(p.addr, p2p.ReachabilityStatusPublic)
				conn[p.name] = true
				public[p.name] = true
			}
			wantD := []uint8{2, 0}[sc]
			if d := k.NeighborhoodDepth(); d != wantD {
				x.Broken("preloaded scenario %d has depth %d, harness expects %d", sc, d, wantD)
			}
		}
		x.Logf("scenario %s", scenarios[sc])

		isProtected := func(p *c24Peer) bool {
			for _, q := range protect {
				if q == p {
					return true
				}
			}
			return false
		}
		// number of connected peers of a bin; and of those reported public
		binCount := func(bin int) (all, pub int) {
			for _, p := range c24All {
				if p.bin == bin && conn[p.name] {
					all++
					if public[p.name] {
						pub++
					}
				}
			}
			return
		}
		// Reading of "its bin is not oversaturated" (see NOTES.md): a bin is oversaturated when it holds
		// at least overSaturation connected peers that are reported public and lies below the potential
		// depth, i.e. the depth the node would have over all KNOWN peers (radius ignored). The depth is
		// taken from the real known-peer set twice - the clause-based reference depth of this harness and
		// the package's own recalcDepth - and the bin must lie below both.
		knownDepths := func() (ref, real int) {
			bins := map[int][2]int{}
			_ = k.EachKnownPeer(func(a boson.Address, po uint8) (bool, bool, error) {
				b := bins[int(po)]
				b[0]++
				if public[c24Name(a)] {
					b[1]++
				}
				bins[int(po)] = b
				return false, false, nil
			})
			return c24RefDepth(bins), int(recalcDepth(k.knownPeers, boson.MaxPO, k.peerFilter))
		}
		certainlyOversaturated := func(bin int) bool {
			_, pub := binCount(bin)
			if pub < overSaturationPeers {
				return false
			}
			ref, real := knownDepths()
			if ref != real {
				x.Tag("known-depth-readings-differ")
			}
			if !(bin < ref && bin < real) {
				return false
			}
			if bin >= int(k.NeighborhoodDepth()) {
				x.Tag("oversaturated-bin-at-or-beyond-connected-depth")
			}
			return true
		}

		observe := func(when string) {
			var want []string
			for _, p := range c24All {
				if conn[p.name] {
					want = append(want, p.name)
				}
			}
			sort.Strings(want)
			collect := func(what string, iter func(model.EachPeerFunc) error, rev bool) []string {
				var got []string
				last := -1
				err := iter(func(a boson.Address, po uint8) (bool, bool, error) {
					got = append(got, c24Name(a))
					if int(po) != int(boson.Proximity(c24Base, a.Bytes())) {
						x.Fail("peer-in-wrong-bin", "%s %s: %s reported with proximity %d", when, what, c24Name(a), po)
					}
					if last >= 0 && ((rev && int(po) < last) || (!rev && int(po) > last)) {
						x.Fail("iteration-order", "%s %s: bin %d after bin %d", when, what, po, last)
					}
					last = int(po)
					return false, false, nil
				})
				x.Check(err == nil, "iteration-error", "%s %s: %v", when, what, err)
				sort.Strings(got)
				return got
			}
			cmp := func(what string, got []string) {
				for i := 1; i < len(got); i++ {
					if got[i] == got[i-1] {
						x.Fail("connected-peer-reported-twice", "%s %s: %s twice in %v", when, what, got[i], got)
					}
				}
				for _, g := range got {
					if g == c24Boot.name || g == c24BootFull.name {
						x.Fail("boot-node-counted-as-connected", "%s %s: boot node reported as connected: %v", when, what, got)
					}
				}
				if strings.Join(got, ",") != strings.Join(want, ",") {
					key := "connected-set-mismatch"
					gs := map[string]bool{}
					for _, g := range got {
						gs[g] = true
					}
					for _, w := range want {
						if !gs[w] {
							key = "connected-peer-missing"
						}
					}
					if key == "connected-set-mismatch" {
						key = "disconnected-peer-still-reported"
					}
					x.Fail(key, "%s %s: reports %v, live connections are %v", when, what, got, want)
				}
			}
			cmp("EachPeer", collect("EachPeer", func(f model.EachPeerFunc) error { return k.EachPeer(f, topology.Filter{}) }, false))
			cmp("EachPeerRev", collect("EachPeerRev", func(f model.EachPeerFunc) error { return k.EachPeerRev(f, topology.Filter{}) }, true))
			known := collect("EachKnownPeer", k.EachKnownPeer, false)
			for i := 1; i < len(known); i++ {
				if known[i] == known[i-1] {
					x.Fail("known-peer-reported-twice", "%s: %s twice in the known peers %v", when, known[i], known)
				}
			}
			ks := map[string]bool{}
			for _, g := range known {
				ks[g] = true
			}
			for _, w := range want {
				if !ks[w] {
					x.Fail("connected-peer-not-known", "%s: %s is connected but not among the known peers %v", when, w, known)
				}
			}
			// snapshots
			ss := k.Snapshot()
			x.Check(ss.Connected == len(want), "snapshot-connected-count", "%s: Snapshot().Connected=%d, live connections %v", when, ss.Connected, want)
			x.Check(ss.Population == len(known), "snapshot-population-count", "%s: Snapshot().Population=%d, known peers %v", when, ss.Population, known)
			var snap []string
			for bi, b := range []model.BinInfo{ss.Bins.Bin0, ss.Bins.Bin1, ss.Bins.Bin2} {
				x.Check(int(b.BinConnected) == len(b.ConnectedPeers), "snapshot-bin-count", "%s: bin %d BinConnected=%d but %d peers listed", when, bi, b.BinConnected, len(b.ConnectedPeers))
				for _, pi := range b.ConnectedPeers {
					snap = append(snap, c24Name(pi.Address))
				}
				for _, pi := range b.DisconnectedPeers {
					if conn[c24Name(pi.Address)] {
						x.Fail("snapshot-lists-connected-peer-as-disconnected", "%s: %s", when, c24Name(pi.Address))
					}
				}
			}
			sort.Strings(snap)
			cmp("Snapshot().Bins", snap)
			n, m := k.SnapshotConnected()
			var sc2 []string
			for _, pi := range m {
				sc2 = append(sc2, c24Name(pi.Address))
			}
			sort.Strings(sc2)
			x.Check(n == len(want), "snapshot-connected-count", "%s: SnapshotConnected()=%d, live connections %v", when, n, want)
			cmp("SnapshotConnected()", sc2)
			// admission pre-check
			for _, p := range []*c24Peer{c24U, c24W, c24B} {
				picked := k.Pick(p2p.Peer{Address: p.addr, Mode: c24Mode(p)})
				if certainlyOversaturated(p.bin) && !isProtected(p) {
					x.Tag("pick-into-oversaturated-bin")
					x.Check(!picked, "pick-accepts-into-oversaturated-bin", "%s: Pick(%s)=true although bin %d holds at least %d reachable connected peers (overSaturation) and the peer is not protected", when, p.name, p.bin, overSaturationPeers)
				}
				if isProtected(p) {
					x.Check(picked, "pick-rejects-protected-peer", "%s: Pick(%s)=false for a protected peer", when, p.name)
				}
			}
		}

		canon := func() string {
			var sb strings.Builder
			dump := func(name string, iter func(model.EachPeerFunc) error) {
				sb.WriteString(name + ":")
				_ = iter(func(a boson.Address, po uint8) (bool, bool, error) {
					fmt.Fprintf(&sb, "%s/%d,", c24Name(a), po)
					return false, false, nil
				})
			}
			dump("C", k.connectedPeers.EachBin)
			dump("K", k.knownPeers.EachBin)
			sb.WriteString("R:")
			for _, p := range c24All {
				if !k.peerFilter(p.addr) {
					sb.WriteString(p.name + ",")
				}
			}
			sb.WriteString("P:")
			for _, p := range k.protectPeers {
				sb.WriteString(c24Name(p) + ",")
			}
			fmt.Fprintf(&sb, "D:%d/%d", k.NeighborhoodDepth(), k.radius)
			return sb.String()
		}

		observe("initially")
		depth := depth
		if sc == 2 {
			depth-- // nothing is near saturation from the empty Kad: one step less
		}
		ops := opsBy[sc]
		for step := 0; step < depth; step++ {
			op := ops[x.Choose(len(ops))]
			when := fmt.Sprintf("after step %d %s", step+1, op)
			p := op.peer
			switch op.kind {
			case "in", "in-force":
				force := op.kind == "in-force"
				all, pub := binCount(p.bin)
				certain := certainlyOversaturated(p.bin)
				err := k.Connected(ctx, p2p.Peer{Address: p.addr, Mode: c24Mode(p)}, force)
				x.Logf("%s -> %v   [bin %d: %d connected, %d public; protected=%v]", op, err, p.bin, all, pub, isProtected(p))
				if err != nil && !errors.Is(err, topology.ErrOversaturated) {
					x.Fail("connected-unexpected-error", "%s: %v", when, err)
				}
				if certain && !force && !isProtected(p) {
					x.Tag("unprotected-inbound-into-oversaturated-bin")
					x.Nontrivial()
					x.Check(err != nil, "oversaturated-bin-admits-unprotected-inbound", "%s: admitted although bin %d holds %d reachable connected peers (overSaturation %d) and the peer is not protected", when, p.bin, pub, overSaturationPeers)
				}
				if err != nil {
					x.Tag("inbound-rejected")
					if all < overSaturationPeers {
						x.Tag("inbound-rejected-below-oversaturation")
					}
				} else {
					if certain && force {
						x.Tag("forced-inbound-into-oversaturated-bin")
					}
					if certain && isProtected(p) {
						x.Tag("protected-inbound-into-oversaturated-bin")
					}
					conn[p.name] = true
				}
			case "out":
				k.Outbound(p2p.Peer{Address: p.addr, Mode: c24Mode(p)})
				x.Logf("%s", op)
				if !p.boot {
					conn[p.name] = true
				} else {
					x.Tag("outbound-to-boot-node")
				}
			case "disc":
				k.Disconnected(p2p.Peer{Address: p.addr, Mode: c24Mode(p)}, "verif")
				x.Logf("%s   [was connected=%v]", op, conn[p.name])
				if conn[p.name] {
					x.Nontrivial()
				}
				conn[p.name] = false
			case "force-disc":
				err := k.DisconnectForce(p.addr, "verif")
				x.Logf("%s -> %v   [was connected=%v]", op, err, conn[p.name])
				x.Check(err == nil, "disconnect-force-error", "%s: %v", when, err)
				if conn[p.name] {
					x.Nontrivial()
				}
				conn[p.name] = false
			case "public":
				k.Reachable(p.addr, p2p.ReachabilityStatusPublic)
				x.Logf("%s", op)
				public[p.name] = true
			case "add":
				k.AddPeers(p.addr)
				x.Logf("%s", op)
				x.Tag("known-only-peer-added")
			case "protect":
				var l []boson.Address
				for _, q := range op.list {
					l = append(l, q.addr)
				}
				k.RefreshProtectPeer(l)
				protect = op.list
				x.Logf("%s", op)
			}
			observe(when)
			if x.Seen(fmt.Sprintf("%d|%s", sc, canon()), depth-step-1) {
				return
			}
		}
		n := 0
		for _, c := range conn {
			if c {
				n++
			}
		}
		x.Outcome(fmt.Sprintf("scenario=%d connected=%d", sc, n))
	})
}
