//go:build verif && go1.18
// +build verif,go1.18

package subscribe

import (
	"fmt"
	"testing"

	"github.com/gauss-project/aurorafs/pkg/zzverif/mc"
	"github.com/gauss-project/aurorafs/pkg/zzverif/vsched"
)

type c40rec struct {
	n   int
	key string
	msg int
}

type c40notifier struct {
	id  int
	err chan error
	log *[]c40rec
}

// c40msg is an element of a PublishArray call; P is the field that selects the specific key.
type c40msg struct {
	P  string
	ID int
}

func (n *c40notifier) Notify(key string, data interface{}) error {
	id := 0
	switch v := data.(type) {
	case int:
		id = v
	case c40msg:
		id = v.ID
	}
	*n.log = append(*n.log, c40rec{n.id, key, id})
	// delivering to a subscriber is a call into another component (an RPC notifier, a
	// channel send): the publisher can be descheduled here
	vsched.Point("notify")
	return nil
}
func (n *c40notifier) Err() <-chan error { return n.err }

type c40reg struct {
	n       int
	key     string
	settled bool // a quiescent point was reached after Subscribe returned
}

func TestVerifC40(t *testing.T) {
	depth := mc.Pick(3, 4)
	maxDev := mc.Pick(2, 3)
	mc.Run(t, mc.Config{ID: "C40", Name: "C40-subscribe", MaxDev: maxDev, ShardLevels: 3, Params: map[string]interface{}{
		"driver_ops": depth, "preemption_bound": maxDev, "notifiers": 2, "keys": []string{"ns_k", "ns_k_p"},
		"alphabet": "Subscribe(n,key) | Publish(param in {'',p}) | PublishArray([p,q,-,p]) | Leave(n)=close(err chan) | Settle(wait for quiescence)",
		"threads":  "driver + subPub.process + one waiter goroutine per Subscribe (all real, rewritten)"}},
		func(x *mc.X) {
			var log []c40rec
			var regs []*c40reg
			left := [2]bool{}        // leave initiated
			leftSettled := [2]bool{} // quiescent point reached after the leave
			used := 0
			nextMsg := 0
			verdict := vsched.Run(x, vsched.Options{MaxSteps: 5000}, func(s *vsched.S) {
				sp := NewSubPub()
				ns := []*c40notifier{{id: 0, err: make(chan error), log: &log}, {id: 1, err: make(chan error), log: &log}}
				for step := 0; step < depth; step++ {
					nn := used + 1
					if nn > 2 {
						nn = 2
					}
					// ops: 0 stop | Settle | Publish('') | Publish(p) | for n<nn: Sub(n,ns_k) Sub(n,ns_k_p) Leave(n)
					op := x.Choose(5 + 3*nn)
					if op == 0 {
						x.Logf("stop")
						break
					}
					switch {
					case op == 1:
						s.Quiesce()
						x.Logf("Settle")
						for _, r := range regs {
							r.settled = true
						}
						for i := range left {
							if left[i] {
								leftSettled[i] = true
							}
						}
					case op == 2 || op == 3:
						param := ""
						if op == 3 {
							param = "p"
						}
						nextMsg++
						before := len(log)
						_ = sp.Publish("ns", "k", param, nextMsg)
						got := log[before:]
						x.Logf("Publish(ns,k,%q,msg%d) -> notified %v", param, nextMsg, got)
						// what the statement requires / allows for this publish
						keys := map[string]bool{"ns_k": true}
						if param != "" {
							keys["ns_k_"+param] = true
						}
						for n := 0; n < 2; n++ {
							for key := range keys {
								must, may := 0, 0
								for _, r := range regs {
									if r.n != n || r.key != key {
										continue
									}
									may++
									if r.settled && !left[n] {
										must++
									}
								}
								cnt := 0
								for _, g := range got {
									if g.n == n && g.key == key {
										cnt++
										if g.msg != nextMsg {
											x.Fail("wrong-message", "notifier %d got msg %d during publish of %d", n, g.msg, nextMsg)
										}
									}
								}
								if leftSettled[n] && cnt > 0 {
									x.Fail("notified-after-leave", "notifier %d left (error channel closed, system settled since) but was notified %d time(s) of msg%d on %s", n, cnt, nextMsg, key)
								}
								if must > 0 && cnt < 1 {
									x.Fail("missed-message", "notifier %d has %d settled registration(s) for %s but was not notified of msg%d", n, must, key, nextMsg)
								}
								if cnt > may {
									x.Fail("duplicate-message", "notifier %d registered %d time(s) for %s but was notified %d time(s) of msg%d", n, may, key, cnt, nextMsg)
								}
							}
						}
						for _, g := range got {
							if !keys[g.key] {
								x.Fail("foreign-key", "publish on %v notified key %s", keys, g.key)
							}
						}
					case op == 4+3*nn:
						// one PublishArray call: four messages, params p, q, none, p
						base := nextMsg
						nextMsg += 4
						list := []interface{}{c40msg{"p", base + 1}, c40msg{"q", base + 2}, c40msg{"", base + 3}, c40msg{"p", base + 4}}
						before := len(log)
						_ = sp.PublishArray("ns", "k", "P", list)
						got := log[before:]
						x.Logf("PublishArray(ns,k,P,[p:%d q:%d -:%d p:%d]) -> notified %v", base+1, base+2, base+3, base+4, got)
						x.Tag("publish-array")
						want := map[string][]int{"ns_k": {base + 1, base + 2, base + 3, base + 4}, "ns_k_p": {base + 1, base + 4}}
						for n := 0; n < 2; n++ {
							for key, ids := range want {
								must, may := 0, 0
								for _, r := range regs {
									if r.n == n && r.key == key {
										may++
										if r.settled && !left[n] {
											must++
										}
									}
								}
								first := map[int]int{}
								cnt := map[int]int{}
								for i, g := range got {
									if g.n == n && g.key == key {
										if _, ok := first[g.msg]; !ok {
											first[g.msg] = i
										}
										cnt[g.msg]++
									}
								}
								prev := -1
								for _, id := range ids {
									if leftSettled[n] && cnt[id] > 0 {
										x.Fail("notified-after-leave", "notifier %d left but PublishArray delivered msg%d on %s", n, id, key)
									}
									if must > 0 && cnt[id] < 1 {
										x.Fail("missed-message", "notifier %d has %d settled registration(s) for %s but PublishArray did not deliver msg%d", n, must, key, id)
									}
									if cnt[id] > may {
										x.Fail("duplicate-message", "notifier %d registered %d time(s) for %s but PublishArray delivered msg%d %d times", n, may, key, id, cnt[id])
									}
									if cnt[id] > 0 {
										if first[id] < prev {
											x.Fail("out-of-publication-order", "notifier %d on %s: PublishArray delivered msg%d before an earlier message of the same call (deliveries %v)", n, key, id, got)
										}
										prev = first[id]
									}
								}
								for _, g := range got {
									if g.n == n && g.key == key {
										ok := false
										for _, id := range ids {
											ok = ok || g.msg == id
										}
										if !ok {
											x.Fail("foreign-key", "notifier %d got msg%d on key %s which it does not belong to", n, g.msg, key)
										}
									}
								}
							}
						}
						for _, g := range got {
							if g.key != "ns_k" && g.key != "ns_k_p" && g.key != "ns_k_q" {
								x.Fail("foreign-key", "PublishArray notified key %s", g.key)
							}
						}
					default:
						k := op - 4
						n, what := k/3, k%3
						if n+1 > used {
							used = n + 1
						}
						switch what {
						case 0, 1:
							param := ""
							key := "ns_k"
							if what == 1 {
								param, key = "p", "ns_k_p"
							}
							if left[n] {
								// subscribing a notifier whose error channel already fired is outside the statement
								x.Logf("skip Subscribe(n%d) after leave", n)
								continue
							}
							_ = sp.Subscribe(ns[n], "ns", "k", param)
							regs = append(regs, &c40reg{n: n, key: key})
							x.Logf("Subscribe(n%d,%s)", n, key)
						case 2:
							if left[n] {
								x.Logf("skip second Leave(n%d)", n)
								continue
							}
							left[n] = true
							vsched.Close(ns[n].err)
							x.Logf("Leave(n%d)", n)
							if len(regs) > 0 {
								x.Tag("leave-with-registrations")
							}
						}
					}
				}
				// final: settle, then one publish on each key must respect leaves and settled registrations
				s.Quiesce()
				for i := range left {
					if left[i] {
						leftSettled[i] = true
					}
				}
				for _, r := range regs {
					r.settled = true
				}
				before := len(log)
				nextMsg++
				_ = sp.Publish("ns", "k", "p", nextMsg)
				got := log[before:]
				x.Logf("final Publish(ns,k,p,msg%d) -> %v", nextMsg, got)
				for n := 0; n < 2; n++ {
					for _, key := range []string{"ns_k", "ns_k_p"} {
						want := 0
						for _, r := range regs {
							if r.n == n && r.key == key && !left[n] {
								want++
							}
						}
						cnt := 0
						for _, g := range got {
							if g.n == n && g.key == key {
								cnt++
							}
						}
						if left[n] && cnt > 0 {
							x.Fail("notified-after-leave", "after settling, notifier %d (left) was still notified %d time(s) on %s", n, cnt, key)
						}
						if !left[n] && (cnt > want || (want > 0 && cnt == 0)) {
							x.Fail("final-count", "after settling, notifier %d has %d registration(s) for %s but was notified %d time(s)", n, want, key, cnt)
						}
					}
				}
				if s.Preemptions() > 0 {
					x.Nontrivial()
				}
			})
			if verdict != "" {
				x.Fail("deadlock", "scheduler verdict %s", verdict)
			}
			x.Outcome(fmt.Sprintf("regs=%d left=%v notified=%d", len(regs), left, len(log)))
			x.State(fmt.Sprintf("%v|%v|%v", regsKey(regs), left, log))
		})
}

func regsKey(rs []*c40reg) string {
	k := ""
	for _, r := range rs {
		k += fmt.Sprintf("%d:%s:%v;", r.n, r.key, r.settled)
	}
	return k
}

// TestVerifC40Concurrent: a publication racing with a subscriber's leave, over settled
// registration lists in which the leaving subscriber sits before, between or after others.
func TestVerifC40Concurrent(t *testing.T) {
	maxDev := mc.Pick(2, 3)
	menus := [][]int{{0, 1, 2}, {0, 0, 1}, {1, 0, 2}, {0, 1, 1}, {1, 2, 0}, {0, 1}, {1, 0, 0, 2}}
	mc.Run(t, mc.Config{ID: "C40", Name: "C40-publish-vs-leave", MaxDev: maxDev, ShardLevels: 3, Params: map[string]interface{}{
		"delay_bound": maxDev, "registration_lists_on_one_key": fmt.Sprint(menus), "threads": "T1: Publish(m1) | T2: notifier 0 leaves (close of its error channel); then settle and Publish(m2)",
		"notify_is_scheduling_point": true}},
		func(x *mc.X) {
			regs := menus[x.Choose(len(menus))]
			twoPubs := x.Bool()
			x.Logf("registrations %v twoPublishers=%v", regs, twoPubs)
			var log []c40rec
			count := func(from, to, n, msg int) int {
				c := 0
				for _, g := range log[from:to] {
					if g.n == n && g.msg == msg {
						c++
					}
				}
				return c
			}
			nregs := map[int]int{}
			for _, n := range regs {
				nregs[n]++
			}
			var mark1 int
			verdict := vsched.Run(x, vsched.Options{MaxSteps: 5000, DelayBounded: true}, func(s *vsched.S) {
				sp := NewSubPub()
				ns := []*c40notifier{{id: 0, err: make(chan error), log: &log}, {id: 1, err: make(chan error), log: &log}, {id: 2, err: make(chan error), log: &log}}
				for _, n := range regs {
					_ = sp.Subscribe(ns[n], "ns", "k", "")
				}
				s.Quiesce() // every registration has taken effect
				s.Go("publisher", func() { _ = sp.Publish("ns", "k", "", 1) })
				if twoPubs {
					s.Go("publisher2", func() { _ = sp.Publish("ns", "k", "p", 3) })
				}
				s.Go("leaver", func() { vsched.Close(ns[0].err) })
				s.Quiesce()
				mark1 = len(log)
				_ = sp.Publish("ns", "k", "", 2)
				if s.Preemptions() > 0 {
					x.Nontrivial()
				}
			})
			if verdict != "" {
				x.Fail("deadlock", "scheduler verdict %s", verdict)
			}
			x.Logf("deliveries %v", log)
			msgs := []int{1}
			if twoPubs {
				msgs = append(msgs, 3)
			}
			for n := 1; n <= 2; n++ {
				if nregs[n] == 0 {
					for _, m := range append(msgs, 2) {
						if count(0, len(log), n, m) > 0 {
							x.Fail("notified-without-registration", "notifier %d never subscribed but got msg%d", n, m)
						}
					}
					continue
				}
				for _, m := range msgs {
					c := count(0, mark1, n, m)
					if c < 1 {
						x.Fail("missed-message", "notifier %d (registered %d time(s), never left) did not get msg%d published while notifier 0 was leaving; registrations %v", n, nregs[n], m, regs)
					}
					if c > nregs[n] {
						x.Fail("duplicate-message", "notifier %d registered %d time(s) but got msg%d %d times while notifier 0 was leaving; registrations %v", n, nregs[n], m, c, regs)
					}
				}
				c := count(mark1, len(log), n, 2)
				if c < 1 || c > nregs[n] {
					x.Fail("final-count", "after settling, notifier %d (registered %d time(s)) got msg2 %d time(s)", n, nregs[n], c)
				}
			}
			for _, m := range msgs {
				if c := count(0, mark1, 0, m); c > nregs[0] {
					x.Fail("duplicate-message", "leaving notifier 0 registered %d time(s) but got msg%d %d times", nregs[0], m, c)
				}
			}
			if c := count(mark1, len(log), 0, 2); c > 0 {
				x.Fail("notified-after-leave", "notifier 0 left (system settled since) but got msg2 %d time(s)", c)
			}
			x.Outcome(fmt.Sprintf("%v", log))
			x.State(fmt.Sprintf("%v|%v", regs, log))
		})
}

// TestVerifC40MsgChan: the package's own channel-backed notifier (NotifierWithMsgChan, 10 slots)
// with a reader that is slower than the publisher: every message must still arrive, in order.
func TestVerifC40MsgChan(t *testing.T) {
	maxDev := mc.Pick(2, 3)
	mc.Run(t, mc.Config{ID: "C40", Name: "C40-msgchan-slow-reader", MaxDev: maxDev, Params: map[string]interface{}{
		"messages": "11..13 published by one thread to a NotifierWithMsgChan (buffer 10) while a second thread reads", "preemption_bound": maxDev}},
		func(x *mc.X) {
			n := 11 + x.Choose(3)
			var got []int
			verdict := vsched.Run(x, vsched.Options{MaxSteps: 5000}, func(s *vsched.S) {
				sp := NewSubPub()
				nf := NewNotifierWithMsgChan()
				_ = sp.Subscribe(nf, "ns", "k", "")
				s.Quiesce()
				vsched.Go(func() { // reader: a background thread, it may stay blocked at the end
					for {
						v, ok := vsched.Recv2(nf.MsgChan)
						if !ok {
							return
						}
						got = append(got, v.(int))
					}
				})
				s.Go("publisher", func() {
					for i := 1; i <= n; i++ {
						_ = sp.Publish("ns", "k", "", i)
					}
				})
				s.Quiesce()
				if s.Preemptions() > 0 {
					x.Nontrivial()
				}
			})
			if verdict != "" {
				x.Fail("deadlock", "scheduler verdict %s", verdict)
			}
			x.Logf("published 1..%d, reader got %v", n, got)
			if len(got) != n {
				x.Fail("missed-message", "a subscriber reading from NotifierWithMsgChan got %d of %d messages: %v", len(got), n, got)
			}
			for i, v := range got {
				if v != i+1 {
					x.Fail("out-of-publication-order", "message %d arrived at position %d: %v", v, i, got)
				}
			}
			x.Nontrivial()
			x.Outcome(fmt.Sprint(n))
			x.State(fmt.Sprint(got))
		})
}
