//go:build verif
// +build verif

package aurora

import (
	"bytes"
	"testing"

	"github.com/gauss-project/aurorafs/pkg/boson"
	"github.com/gauss-project/aurorafs/pkg/crypto"
	"github.com/gauss-project/aurorafs/pkg/zzverif/c34ref"
	"github.com/gauss-project/aurorafs/pkg/zzverif/mc"
	ma "github.com/multiformats/go-multiaddr"
)

func verifChooseIdx(x *mc.X, n int) int {
	const k = 8
	hi := x.Choose((n + k - 1) / k)
	rem := n - hi*k
	if rem > k {
		rem = k
	}
	return hi*k + x.Choose(rem)
}

// verifGenuine builds, with the code under test, the record key ki makes for
// (underlay ui, network ni), claiming its own overlay.
func verifGenuine(x *mc.X, ki, ui, ni int) c34ref.Record {
	priv := crypto.Secp256k1PrivateKeyFromBytes(c34ref.Keys[ki])
	signer := crypto.NewDefaultSigner(priv)
	nid := c34ref.NetworkIDs[ni]
	ov, err := crypto.NewOverlayAddress(priv.PublicKey, nid)
	x.NoErr(err, "NewOverlayAddress")
	if ki == 0 && !bytes.Equal(ov.Bytes(), c34ref.OverlayOf(c34ref.PublicKey(ki))) {
		// sanity anchor on an ordinary key only; for every key the comparison is a
		// property check in the unmutated execution
		x.Broken("reference overlay derivation disagrees with crypto.NewOverlayAddress for key %d", ki)
	}
	u, err := ma.NewMultiaddr(c34ref.Underlays[ui])
	x.NoErr(err, "NewMultiaddr")
	a, err := NewAddress(signer, u, ov, nid)
	x.NoErr(err, "aurora.NewAddress")
	ub, err := a.Underlay.MarshalBinary()
	x.NoErr(err, "underlay MarshalBinary")
	return c34ref.Record{Underlay: ub, Overlay: a.Overlay.Bytes(), Signature: a.Signature, NetworkID: nid}.Clone()
}

func TestVerifC34Aurora(t *testing.T) {
	if c34ref.InitErr != nil {
		t.Fatalf("BROKEN-CHECK %v", c34ref.InitErr)
	}
	nk := len(c34ref.Keys)
	type base struct {
		rec c34ref.Record
		ops []c34ref.Op
	}
	memo := map[int]*base{}
	mc.Run(t, mc.Config{ID: "C34", Name: "C34-aurora-parseaddress", MaxDev: -1, Params: map[string]interface{}{
		"keys":        c34ref.KeyNames,
		"combos":      "keys x underlays x network ids; per-byte mutations on the combos with network index = (key+underlay) mod 3 (quick) / all (thorough); every other operator on all combos",
		"underlays":   c34ref.Underlays,
		"network_ids": []string{"0", "1", "2^64-1"},
		"mutations":   "every byte of underlay, overlay, signature xor 0x01 / xor 0x80; signature header byte := {v+4, other recovery id, other+4, 0, 26, 35}; verifier network id := each other alphabet value and id^1, id^2^8, id^2^63; each field shortened by one byte / extended by a zero byte / empty; underlay|overlay boundary shifted by one byte in both directions (same signed byte string); overlay of each other key; signature of each other key over the same underlay",
	}}, func(x *mc.X) {
		combo := x.Choose(nk * 9)
		ki, ui, ni := combo/9, (combo/3)%3, combo%3
		b := memo[combo]
		if b == nil {
			b = &base{rec: verifGenuine(x, ki, ui, ni)}
			b.ops = c34ref.Ops(b.rec, ki, mc.Thorough() || ni == (ki+ui)%3)
			memo[combo] = b
		}
		op := b.ops[verifChooseIdx(x, len(b.ops))]
		m, field := c34ref.Apply(b.rec, op, func(k int) []byte { return verifGenuine(x, k, ui, ni).Signature })
		x.Logf("key %d ["+c34ref.KeyNames[ki]+"] underlay %s network %d: %s (%s)", ki, c34ref.Underlays[ui], b.rec.NetworkID, field, op)

		var a *Address
		var err error
		if pv := mc.Try(func() { a, err = ParseAddress(m.Underlay, m.Overlay, m.Signature, m.NetworkID) }); pv != nil {
			x.Fail("panic-parseaddress-"+field, "ParseAddress panicked: %v", pv)
		}
		want, why := c34ref.Accept(m)
		x.Logf("ParseAddress err=%v; reference accepts=%v %s", err, want, why)
		if op.Kind == c34ref.OpNone {
			x.Check(bytes.Equal(m.Overlay, c34ref.OverlayOf(c34ref.PublicKey(ki))), "overlay-is-not-the-keys-overlay", "crypto.NewOverlayAddress gives %x for key %d [%s], SHA3-256(keccak256(X||Y)) is %x", m.Overlay, ki, c34ref.KeyNames[ki], c34ref.OverlayOf(c34ref.PublicKey(ki)))
			if ki >= 3 {
				x.Tag("boundary-key-own-record")
			}
		}
		x.Check(err != nil || want, "accepts-unauthenticated-"+field, "ParseAddress accepted a record the reference rejects (%s): %s", field, why)

		if op.Kind == c34ref.OpNone {
			x.Check(want, "reference-rejects-own-record", "reference rejects a record made by NewAddress: %s", why)
			x.Check(err == nil && a != nil, "own-record-rejected", "record made by the node's own signer rejected: %v", err)
			ub, _ := a.Underlay.MarshalBinary()
			x.Check(bytes.Equal(ub, m.Underlay) && a.Overlay.Equal(boson.NewAddress(m.Overlay)) && bytes.Equal(a.Signature, m.Signature), "parsed-record-differs", "ParseAddress returned different fields")
			x.Outcome("own->accepted")
			return
		}
		x.Nontrivial()
		x.Tag("mutated-" + field)
		if want {
			x.Tag("equivalent-encoding-" + field)
			x.Outcome("equivalent-encoding(" + field + ")->accepted=" + map[bool]string{true: "true", false: "false"}[err == nil])
			return
		}
		x.Outcome("mutated->rejected")
	})
}
