//go:build verif
// +build verif

package mem

// C36, near-miss passwords (in-memory keystore): see the file keystore's
// zz_verif_c36_nearmiss_test.go; the same variant table, all bases, all
// variants and both directions in every tier (no scrypt here).

import (
	"crypto/sha256"
	"fmt"
	"strings"
	"testing"
	"unicode"
	"unicode/utf8"

	"github.com/gauss-project/aurorafs/pkg/zzverif/mc"
)

type c36Variant struct {
	name string
	f    func(string) string // returns the input unchanged when not applicable
}

func c36SwapCase(s string) string {
	for i, r := range s {
		if unicode.IsUpper(r) {
			return s[:i] + string(unicode.ToLower(r)) + s[i+utf8.RuneLen(r):]
		}
		if unicode.IsLower(r) {
			return s[:i] + string(unicode.ToUpper(r)) + s[i+utf8.RuneLen(r):]
		}
	}
	return s
}

func c36Renormalise(s string) string {
	const composed, decomposed = "\u00e9", "e\u0301"
	if strings.Contains(s, composed) {
		return strings.Replace(s, composed, decomposed, 1)
	}
	return strings.Replace(s, decomposed, composed, 1)
}

// c36LongKeyDigest: HMAC replaces a key longer than its block size (64 bytes
// for SHA-256) by the key's digest; a KDF built on HMAC may therefore treat a
// long password and the 32 raw digest bytes as the same password.
func c36LongKeyDigest(s string) string {
	if len(s) <= 64 {
		return s
	}
	d := sha256.Sum256([]byte(s))
	return string(d[:])
}

func c36DropLast(s string) string {
	_, n := utf8.DecodeLastRuneInString(s)
	return s[:len(s)-n]
}

var c36Variants = []c36Variant{
	{"trailing-space", func(s string) string { return s + " " }},
	{"trailing-newline", func(s string) string { return s + "\n" }},
	{"leading-space", func(s string) string { return " " + s }},
	{"trailing-ideographic-space", func(s string) string { return s + "\u3000" }},
	{"case-change", c36SwapCase},
	{"unicode-normalisation", c36Renormalise},
	{"trailing-nul", func(s string) string { return s + "\x00" }},
	{"trailing-tab", func(s string) string { return s + "\t" }},
	{"leading-newline", func(s string) string { return "\n" + s }},
	{"trailing-nbsp", func(s string) string { return s + "\u00a0" }},
	{"leading-bom", func(s string) string { return "\ufeff" + s }},
	{"char-appended", func(s string) string { return s + "x" }},
	{"char-removed", c36DropLast},
	{"hmac-long-key-digest", c36LongKeyDigest},
}

var c36NearMissBases = []string{"", "Secret\u00e9", "p", "пароль", " x ", strings.Repeat("x", 65)}

func TestVerifC36MemNearMiss(t *testing.T) {
	var vnames []string
	for _, v := range c36Variants {
		vnames = append(vnames, v.name)
	}
	mc.Run(t, mc.Config{ID: "C36", Name: "C36-mem-near-miss-passwords", MaxDev: -1, Params: map[string]interface{}{
		"base_passwords": fmt.Sprintf("%q", c36NearMissBases), "variants": vnames, "directions": 2,
		"script": "Key(name, stored password) creates; Key(name, other password) must be rejected; the stored password still opens the same key"}},
		func(x *mc.X) {
			base := c36NearMissBases[x.Choose(len(c36NearMissBases))]
			v := c36Variants[x.Choose(len(c36Variants))]
			reverse := x.Bool()
			variant := v.f(base)
			if variant == base {
				x.Logf("variant %s does not apply to %q", v.name, base)
				x.Outcome("not-applicable")
				return
			}
			stored, other := base, variant
			if reverse {
				stored, other = variant, base
			}
			x.Logf("stored with %q, opened with %q (%s, reverse=%v)", stored, other, v.name, reverse)
			x.Nontrivial()
			s := New()
			k1, created, err := s.Key("a", stored)
			if err != nil {
				x.Logf("creation refused: %v", err) // see the file keystore harness
				x.Outcome("creation-refused")
				return
			}
			x.Check(created && k1 != nil, "create-failed", "Key(a,%q) on an empty keystore = created %v, err %v", stored, created, err)
			k2, created, err := s.Key("a", other)
			x.Outcome(fmt.Sprintf("near-miss:rejected=%v", err != nil))
			x.Check(err != nil, "near-miss-password-accepted:"+v.name, "key stored with %q was opened with %q (created=%v, key returned=%v)", stored, other, created, k2 != nil)
			k3, created, err := s.Key("a", stored)
			x.Check(err == nil && !created && k3 != nil && k3.D.Cmp(k1.D) == 0, "right-password-rejected", "Key(a,%q) with the stored password = created %v, err %v", stored, created, err)
		})
}
