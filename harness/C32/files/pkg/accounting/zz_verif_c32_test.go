//go:build verif && go1.18
// +build verif,go1.18

package accounting

import (
	"context"
	"fmt"
	"io"
	"math/big"
	"testing"

	"github.com/gauss-project/aurorafs/pkg/boson"
	"github.com/gauss-project/aurorafs/pkg/logging"
	"github.com/gauss-project/aurorafs/pkg/settlement"
	"github.com/gauss-project/aurorafs/pkg/zzverif/mc"
	"github.com/gauss-project/aurorafs/pkg/zzverif/vsched"
)

const (
	c32Threshold = 10
	c32Tolerance = 10
	c32Available = 15
)

// deterministic settlement stub; it is only ever entered by the one running thread
type c32settle struct {
	transfer   map[string]int64
	retrieved  map[string]int64
	pays       int
	autoNotify bool
	acc        *Accounting
	rec        func(kind, peer string, arg int64, f func() string)
}

func (s *c32settle) Pay(_ context.Context, peer boson.Address, th *big.Int) error {
	s.pays++
	if s.autoNotify {
		s.rec("notify", peer.String(), th.Int64(), func() string {
			_ = s.acc.NotifyPayment(peer, th)
			return "ok"
		})
	}
	return nil
}
func (s *c32settle) TransferTraffic(peer boson.Address) (*big.Int, error) {
	return big.NewInt(s.transfer[peer.String()]), nil
}
func (s *c32settle) RetrieveTraffic(peer boson.Address) (*big.Int, error) { return big.NewInt(0), nil }
func (s *c32settle) PutRetrieveTraffic(peer boson.Address, t *big.Int) error {
	s.retrieved[peer.String()] += t.Int64()
	return nil
}
func (s *c32settle) PutTransferTraffic(peer boson.Address, t *big.Int) error {
	s.transfer[peer.String()] += t.Int64()
	return nil
}
func (s *c32settle) AvailableBalance() (*big.Int, error)                      { return big.NewInt(c32Available), nil }
func (s *c32settle) SetNotifyPaymentFunc(settlement.NotifyPaymentFunc)        {}
func (s *c32settle) GetPeerBalance(boson.Address) (*big.Int, error)           { return big.NewInt(0), nil }
func (s *c32settle) GetUnPaidBalance(boson.Address) (*big.Int, error)         { return big.NewInt(0), nil }

type c32op struct {
	thread    string
	kind      string // reserve credit debit notify
	peer      string
	arg       int64
	res       string
	call, ret int
}

// sequential reference model
type c32model struct {
	unpaid   map[string]int64
	transfer map[string]int64
	pays     int
}

func (m *c32model) apply(o *c32op) string {
	switch o.kind {
	case "reserve":
		if c32Available < m.unpaid[o.peer]+o.arg {
			return "low"
		}
		return "ok"
	case "credit":
		m.unpaid[o.peer] += o.arg
		if m.unpaid[o.peer] >= c32Threshold {
			m.pays++
		}
		return "ok"
	case "debit":
		if c32Tolerance <= m.transfer[o.peer] {
			return "refused"
		}
		m.transfer[o.peer] += o.arg
		return "ok"
	case "notify":
		u := m.unpaid[o.peer]
		if u <= 0 {
			return "ok"
		}
		if u < o.arg {
			m.unpaid[o.peer] = 0
		} else {
			m.unpaid[o.peer] = u - o.arg
		}
		return "ok"
	}
	return "?"
}

type c32final struct {
	unpaid, transfer map[string]int64
	pays             int
}

// linearizable reports whether some total order of ops consistent with the
// real-time order explains all results and the final state.
func c32linearizable(ops []*c32op, fin c32final) bool {
	n := len(ops)
	used := make([]bool, n)
	order := make([]int, 0, n)
	var rec func() bool
	rec = func() bool {
		if len(order) == n {
			m := &c32model{unpaid: map[string]int64{}, transfer: map[string]int64{}}
			for _, i := range order {
				if m.apply(ops[i]) != ops[i].res {
					return false
				}
			}
			if m.pays != fin.pays {
				return false
			}
			for _, p := range []string{"P", "Q"} {
				if m.unpaid[p] != fin.unpaid[p] || m.transfer[p] != fin.transfer[p] {
					return false
				}
			}
			return true
		}
		for i := 0; i < n; i++ {
			if used[i] {
				continue
			}
			// i may come next only if no unused op returned before i was called
			okNext := true
			for j := 0; j < n; j++ {
				if j != i && !used[j] && ops[j].ret < ops[i].call {
					okNext = false
					break
				}
			}
			if !okNext {
				continue
			}
			used[i] = true
			order = append(order, i)
			if rec() {
				return true
			}
			order = order[:len(order)-1]
			used[i] = false
		}
		return false
	}
	return rec()
}

type c32alpha struct {
	kind string
	peer int
	arg  int64
}

var c32ops = []c32alpha{
	{"credit", 0, 5}, {"notify", 0, 4}, {"reserve", 0, 5}, {"debit", 0, 5}, {"notify", 0, 20}, {"credit", 1, 10},
}

func TestVerifC32(t *testing.T) {
	nThreads := mc.Pick(2, 3)
	opsPer := 2
	maxDev := mc.Pick(2, 3)
	nAlpha := 6
	delay := mc.Thorough() // three threads: delay bounding keeps the thorough tier exhaustive
	peers := []boson.Address{boson.MustParseHexAddress("aa00000000000000000000000000000000000000000000000000000000000000"), boson.MustParseHexAddress("bb00000000000000000000000000000000000000000000000000000000000000")}
	pname := map[string]string{peers[0].String(): "P", peers[1].String(): "Q"}
	mc.Run(t, mc.Config{ID: "C32", Name: "C32-accounting", MaxDev: maxDev, ShardLevels: 3, Params: map[string]interface{}{
		"threads": nThreads, "ops_per_thread": opsPer, "deviation_bound": maxDev, "delay_bounded": delay, "alphabet": fmt.Sprint(c32ops[:nAlpha]),
		"threshold": c32Threshold, "tolerance": c32Tolerance, "available": c32Available, "watched": []string{"accountingPeer.unPaidTraffic", "Accounting.accountingPeers"}}},
		func(x *mc.X) {
			auto := x.Bool()
			// programs: each thread gets 1..opsPer ops; thread programs are chosen non-decreasing to cut symmetric duplicates
			progs := make([][]c32alpha, nThreads)
			prevCode := 0
			for i := range progs {
				n := 1 + x.Choose(opsPer)
				code := 0
				for k := 0; k < n; k++ {
					o := x.Choose(nAlpha)
					progs[i] = append(progs[i], c32ops[o])
					code = code*(len(c32ops)+1) + o + 1
				}
				if i > 0 && code < prevCode {
					x.Logf("symmetric duplicate skipped")
					return
				}
				prevCode = code
			}
			x.Logf("autoNotify=%v programs=%v", auto, progs)
			var hist []*c32op
			clock := 0
			var acc *Accounting
			st := &c32settle{transfer: map[string]int64{}, retrieved: map[string]int64{}, autoNotify: auto}
			record := func(thread string) func(kind, peer string, arg int64, f func() string) {
				return func(kind, peer string, arg int64, f func() string) {
					o := &c32op{thread: thread, kind: kind, peer: peer, arg: arg}
					clock++
					o.call = clock
					hist = append(hist, o)
					o.ret = 1 << 30
					o.res = f()
					clock++
					o.ret = clock
				}
			}
			st.rec = func(kind, peer string, arg int64, f func() string) { record("settle")(kind, pname[peer], arg, f) }
			negative := ""
			verdict := vsched.Run(x, vsched.Options{MaxSteps: 4000, DelayBounded: delay}, func(s *vsched.S) {
				acc = NewAccounting(big.NewInt(c32Tolerance), big.NewInt(c32Threshold), logging.New(io.Discard, 0), nil, st)
				st.acc = acc
				for i := range progs {
					prog, name := progs[i], fmt.Sprintf("T%d", i)
					s.Go(name, func() {
						rec := record(name)
						for _, a := range prog {
							a := a
							p := peers[a.peer]
							rec(a.kind, pname[p.String()], a.arg, func() string {
								switch a.kind {
								case "credit":
									if err := acc.Credit(context.Background(), p, uint64(a.arg)); err != nil {
										return "err"
									}
								case "notify":
									if err := acc.NotifyPayment(p, big.NewInt(a.arg)); err != nil {
										return "err"
									}
								case "reserve":
									if err := acc.Reserve(p, uint64(a.arg)); err != nil {
										if err == ErrLowAvailableExceeded {
											return "low"
										}
										return "err"
									}
								case "debit":
									if err := acc.Debit(p, uint64(a.arg)); err != nil {
										return "refused"
									}
								}
								// the unpaid balance is never negative
								for k, ap := range acc.accountingPeers {
									if ap.unPaidTraffic.Sign() < 0 {
										negative = fmt.Sprintf("peer %s unpaid %v", pname[k], ap.unPaidTraffic)
									}
								}
								return "ok"
							})
						}
					})
				}
				s.Quiesce()
				if s.Preemptions() > 0 {
					x.Nontrivial()
				}
			})
			if verdict != "" {
				x.Fail("deadlock", "scheduler verdict: %s", verdict)
			}
			x.Check(negative == "", "negative-unpaid", "unpaid balance went negative: %s", negative)
			fin := c32final{unpaid: map[string]int64{}, transfer: map[string]int64{}, pays: st.pays}
			for k, ap := range acc.accountingPeers {
				fin.unpaid[pname[k]] = ap.unPaidTraffic.Int64()
			}
			for k, v := range st.transfer {
				fin.transfer[pname[k]] = v
			}
			desc := ""
			for _, o := range hist {
				desc += fmt.Sprintf("%s:%s(%s,%d)=%s[%d,%d] ", o.thread, o.kind, o.peer, o.arg, o.res, o.call, o.ret)
				if o.ret == 1<<30 {
					x.Fail("op-did-not-return", "operation %s(%s) by %s never returned", o.kind, o.peer, o.thread)
				}
			}
			x.Logf("history: %s final unpaid=%v transfer=%v pays=%d", desc, fin.unpaid, fin.transfer, fin.pays)
			if !c32linearizable(hist, fin) {
				x.Fail("not-linearizable", "no sequential order of the reference model explains: %s final unpaid=%v served=%v payment-requests=%d", desc, fin.unpaid, fin.transfer, fin.pays)
			}
			x.Outcome(fmt.Sprintf("unpaid=%v served=%v pays=%d", fin.unpaid, fin.transfer, fin.pays))
			x.State(desc + fmt.Sprintf("|%v|%v|%d", fin.unpaid, fin.transfer, fin.pays))
		})
}
