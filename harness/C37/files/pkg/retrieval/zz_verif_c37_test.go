//go:build verif
// +build verif

package retrieval

import (
	"context"
	"encoding/binary"
	"fmt"
	"io"
	"sync"
	"testing"
	"time"

	"github.com/gauss-project/aurorafs/pkg/aurora"
	"github.com/gauss-project/aurorafs/pkg/boson"
	"github.com/gauss-project/aurorafs/pkg/cac"
	"github.com/gauss-project/aurorafs/pkg/chunkinfo"
	"github.com/gauss-project/aurorafs/pkg/logging"
	"github.com/gauss-project/aurorafs/pkg/p2p"
	"github.com/gauss-project/aurorafs/pkg/retrieval/aco"
	"github.com/gauss-project/aurorafs/pkg/retrieval/pb"
	"github.com/gauss-project/aurorafs/pkg/routetab"
	"github.com/gauss-project/aurorafs/pkg/storage"
	storemock "github.com/gauss-project/aurorafs/pkg/storage/mock"
	"github.com/gauss-project/aurorafs/pkg/zzverif/mc"
	"github.com/gauss-project/aurorafs/pkg/zzverif/wire"
)

// ---------------------------------------------------------------- stubs

// c37ChunkInfo: minimal chunkinfo.Interface (the repository's mock is stale).
type c37ChunkInfo struct {
	mu        sync.Mutex
	routes    []aco.Route
	retrieved [][]byte // cids reported through OnChunkRetrieved
}

func (c *c37ChunkInfo) FindChunkInfo(context.Context, []byte, boson.Address, []boson.Address) bool {
	return false
}
func (c *c37ChunkInfo) GetChunkInfo(boson.Address, boson.Address) []aco.Route { return c.routes }
func (c *c37ChunkInfo) GetChunkInfoDiscoverOverlays(boson.Address) []aurora.ChunkInfoOverlay {
	return nil
}
func (c *c37ChunkInfo) GetChunkInfoServerOverlays(boson.Address) []aurora.ChunkInfoOverlay {
	return nil
}
func (c *c37ChunkInfo) CancelFindChunkInfo(boson.Address) {}
func (c *c37ChunkInfo) OnChunkTransferred(cid, root, overlay, target boson.Address) error {
	return nil
}
func (c *c37ChunkInfo) Init(context.Context, []byte, boson.Address) bool { return false }
func (c *c37ChunkInfo) GetChunkPyramid(boson.Address) []*chunkinfo.PyramidCidNum {
	return nil
}
func (c *c37ChunkInfo) IsDiscover(boson.Address) bool { return false }
func (c *c37ChunkInfo) GetFileList(boson.Address) ([]map[string]interface{}, []boson.Address) {
	return nil, nil
}
func (c *c37ChunkInfo) DelFile(boson.Address, func() error) error { return nil }
func (c *c37ChunkInfo) DelDiscover(boson.Address)                 {}
func (c *c37ChunkInfo) OnChunkRetrieved(cid, root, source boson.Address) error {
	c.mu.Lock()
	defer c.mu.Unlock()
	c.retrieved = append(c.retrieved, cid.Bytes())
	return nil
}
func (c *c37ChunkInfo) GetChunkInfoSource(boson.Address) aurora.ChunkInfoSourceApi {
	return aurora.ChunkInfoSourceApi{}
}
func (c *c37ChunkInfo) ManifestView(context.Context, string, string, int) (*chunkinfo.ManifestNode, error) {
	return nil, nil
}
func (c *c37ChunkInfo) GetManifest(string, string, int) *chunkinfo.ManifestNode { return nil }

var _ chunkinfo.Interface = (*c37ChunkInfo)(nil)

// c37RouteTab: every peer is directly reachable.
type c37RouteTab struct{}

func (c37RouteTab) GetRoute(context.Context, boson.Address) ([]*routetab.Path, error) {
	return nil, nil
}
func (c37RouteTab) FindRoute(context.Context, boson.Address, ...time.Duration) ([]*routetab.Path, error) {
	return nil, nil
}
func (c37RouteTab) DelRoute(context.Context, boson.Address) error { return nil }
func (c37RouteTab) Connect(context.Context, boson.Address) error  { return nil }
func (c37RouteTab) GetTargetNeighbor(context.Context, boson.Address, int) ([]boson.Address, error) {
	return nil, nil
}
func (c37RouteTab) IsNeighbor(boson.Address) bool { return true }
func (c37RouteTab) FindUnderlay(context.Context, boson.Address, ...time.Duration) (*aurora.Address, error) {
	return nil, nil
}

var _ routetab.RouteTab = c37RouteTab{}

type c37Accounting struct {
	mu                     sync.Mutex
	reserve, credit, debit int
}

func (a *c37Accounting) Reserve(boson.Address, uint64) error {
	a.mu.Lock()
	a.reserve++
	a.mu.Unlock()
	return nil
}
func (a *c37Accounting) Credit(context.Context, boson.Address, uint64) error {
	a.mu.Lock()
	a.credit++
	a.mu.Unlock()
	return nil
}
func (a *c37Accounting) Debit(boson.Address, uint64) error {
	a.mu.Lock()
	a.debit++
	a.mu.Unlock()
	return nil
}

type c37Put struct{ addr, data []byte }

// c37Store records every Put made by the service under test.
type c37Store struct {
	*storemock.MockStorer
	mu   sync.Mutex
	puts []c37Put
}

func (s *c37Store) Put(ctx context.Context, mode storage.ModePut, chs ...boson.Chunk) ([]bool, error) {
	s.mu.Lock()
	for _, ch := range chs {
		s.puts = append(s.puts, c37Put{append([]byte{}, ch.Address().Bytes()...), append([]byte{}, ch.Data()...)})
	}
	s.mu.Unlock()
	return s.MockStorer.Put(ctx, mode, chs...)
}


var (
	c37Self = boson.MustParseHexAddress("5e1f000000000000000000000000000000000000000000000000000000000001")
	c37Peer = p2p.Peer{Address: boson.MustParseHexAddress("9ee7000000000000000000000000000000000000000000000000000000000002"), Mode: aurora.NewModel().SetMode(aurora.FullNode)}
	c37Far  = boson.MustParseHexAddress("fa70000000000000000000000000000000000000000000000000000000000003")
)

func c37Chunk(payload string) boson.Chunk {
	ch, err := cac.New([]byte(payload))
	if err != nil {
		panic(err)
	}
	return ch
}

type c37Node struct {
	svc   *Service
	store *c37Store
	sr    *wire.Streamer
}

// the node holds chunk "stored"; forwarding requests are answered with `reply`
func c37NewNode(reply []byte) *c37Node {
	n := &c37Node{store: &c37Store{MockStorer: storemock.NewStorer()}}
	n.sr = &wire.Streamer{Reply: func(boson.Address, string, string, int) []byte { return reply }}
	n.svc = New(c37Self, n.sr, c37RouteTab{}, n.store, true, logging.New(io.Discard, 0), nil, &c37Accounting{}, nil)
	n.svc.Config(&c37ChunkInfo{})
	_, _ = n.store.MockStorer.Put(context.Background(), storage.ModePutUpload, c37Chunk("stored"))
	return n
}

func (n *c37Node) followUp() {
	// local reads of everything the message caused to be stored
	n.store.mu.Lock()
	puts := append([]c37Put{}, n.store.puts...)
	n.store.mu.Unlock()
	for _, p := range puts {
		ch, err := n.store.Get(context.Background(), storage.ModeGetRequest, boson.NewAddress(p.addr))
		if err == nil {
			_ = cac.Valid(ch)
		}
	}
	_ = n.svc.GetRouteScore(time.Now().Unix())
}

func TestVerifC37(t *testing.T) {
	stored := c37Chunk("stored")
	remote := c37Chunk("remote")
	validReq := &pb.RequestChunk{TargetAddr: c37Self.Bytes(), RootAddr: stored.Address().Bytes(), ChunkAddr: stored.Address().Bytes()}
	validDelivery := &pb.Delivery{Data: remote.Data()}

	// requests: standard faults + full field product (9 x 9 x 11)
	reqs := wire.Standard(validReq)
	chunkVals := append(wire.BytesField(stored.Address().Bytes(), 64<<10),
		wire.BytesVal{Name: "remote-chunk", V: remote.Address().Bytes()}, wire.BytesVal{Name: "unknown-chunk", V: c37Far.Bytes()})
	targetVals := append(wire.BytesField(c37Self.Bytes(), 64<<10), wire.BytesVal{Name: "far-node", V: c37Far.Bytes()})
	for _, tv := range targetVals {
		for _, rv := range wire.BytesField(stored.Address().Bytes(), 64<<10) {
			for _, cv := range chunkVals {
				reqs = append(reqs, wire.Msg(fmt.Sprintf("target=%s,root=%s,chunk=%s", tv.Name, rv.Name, cv.Name),
					&pb.RequestChunk{TargetAddr: tv.V, RootAddr: rv.V, ChunkAddr: cv.V}))
			}
		}
	}
	// deliveries
	dels := wire.Standard(validDelivery)
	span := func(n uint64, payload int) []byte {
		b := make([]byte, 8+payload)
		binary.LittleEndian.PutUint64(b, n)
		return b
	}
	for _, dv := range append(wire.BytesField(remote.Data(), 64<<10),
		wire.BytesVal{Name: "7-bytes", V: make([]byte, 7)}, wire.BytesVal{Name: "span-only", V: span(0, 0)},
		wire.BytesVal{Name: "span-max", V: span(^uint64(0), 32)}, wire.BytesVal{Name: "104-bytes", V: make([]byte, 104)},
		wire.BytesVal{Name: "105-bytes", V: make([]byte, 105)}, wire.BytesVal{Name: "chunk+9", V: make([]byte, boson.ChunkSize+9)},
		wire.BytesVal{Name: "chunk+8+105", V: make([]byte, boson.ChunkSize+8+105)},
		wire.BytesVal{Name: "1MiB-16", V: make([]byte, 1<<20-16)}) {
		dels = append(dels, wire.Msg("data="+dv.Name, &pb.Delivery{Data: dv.V}))
	}

	targets := []wire.Target{
		{Name: "handler(retrieval)", Cases: reqs, Run: func(x *mc.X, c wire.Case) string {
			n := c37NewNode(wire.Frame(validDelivery))
			h := n.svc.Protocol().StreamSpecs[0].Handler
			st := wire.NewStream(c.Data)
			err := h(context.Background(), c37Peer, st)
			n.followUp()
			if n.sr.Count() > 0 {
				x.Tag("retrieval-handler-forwarded")
			}
			return wire.ErrClass(err)
		}},
		{Name: "handler(retrieval)/forwarding-read", Cases: dels, Run: func(x *mc.X, c wire.Case) string {
			// the request is well-formed and names a far node; the far node's answer is the input
			n := c37NewNode(c.Data)
			h := n.svc.Protocol().StreamSpecs[0].Handler
			st := wire.NewStream(wire.Frame(&pb.RequestChunk{TargetAddr: c37Far.Bytes(), RootAddr: remote.Address().Bytes(), ChunkAddr: remote.Address().Bytes()}))
			err := h(context.Background(), c37Peer, st)
			n.followUp()
			return wire.ErrClass(err)
		}},
		{Name: "client(RetrieveChunkFromNode)", Cases: dels, Run: func(x *mc.X, c wire.Case) string {
			n := c37NewNode(c.Data)
			_, err := n.svc.RetrieveChunkFromNode(context.Background(), c37Far, remote.Address(), remote.Address())
			n.followUp()
			return wire.ErrClass(err)
		}},
	}
	wire.Explore(t, func(cfg mc.Config, body func(*mc.X)) { mc.Run(t, cfg, body) }, "C37-retrieval", map[string]interface{}{
		"alphabet": "RequestChunk: standard framing/wire faults + full product target{valid(self),absent,empty,1,31,33,64,other,64KiB,far node} x root{9 field values} x chunk{9 field values, remote chunk, unknown chunk}; Delivery (client read, directly and through the forwarding handler): standard faults + data{valid,absent,empty,1,len-1,len+1,2len,other,64KiB,7,span only,max span,104,105,chunk+9,chunk+8+105,1MiB-16}",
	}, targets)
}
