//go:build verif
// +build verif

package builder

// C02 — the reference of unencrypted content is the Aurora tree hash of the bytes alone.
//
// c02RefHash below is an independent implementation of the format written from the property
// statement (naive BMT + recursive tree); it shares nothing with the pipeline except the
// keccak256 primitive. At the production geometry it uses the literal constants of the
// statement (256 KiB chunks, 8192 references, little-endian span), not the boson constants.

import (
	"bytes"
	"context"
	"encoding/binary"
	"encoding/hex"
	"fmt"
	"io"
	"runtime/debug"
	"sort"
	"sync"
	"testing"

	"github.com/gauss-project/aurorafs/pkg/boson"
	"github.com/gauss-project/aurorafs/pkg/storage"
	"github.com/gauss-project/aurorafs/pkg/zzverif/mc"
	"golang.org/x/crypto/sha3"
)

func init() {
	if boson.Branches == 4 { // scaled geometry only (tiny live heap, many small objects)
		debug.SetGCPercent(2000)
	}
}

var (
	c02SegMu    sync.Mutex
	c02SegCache = map[string][]c02Seg{}
)

// ---------------------------------------------------------------- independent specification

func c02Keccak(parts ...[]byte) []byte {
	h := sha3.NewLegacyKeccak256()
	for _, p := range parts {
		h.Write(p)
	}
	return h.Sum(nil)
}

func c02LE64(v uint64) []byte {
	b := make([]byte, 8)
	for i := 0; i < 8; i++ { // little-endian, spelled out
		b[i] = byte(v >> (8 * uint(i)))
	}
	return b
}

// c02BMT: the BMT hash of a chunk payload (at most chunkSize bytes) under an 8-byte span prefix:
// the payload is zero-padded to chunkSize, cut into 32-byte segments, neighbouring pairs are
// hashed with keccak256 level by level down to one 32-byte root; the chunk hash is
// keccak256(span || root).
func c02BMT(payload []byte, span uint64, chunkSize int) []byte {
	if len(payload) > chunkSize {
		panic("c02BMT: payload larger than a chunk")
	}
	padded := make([]byte, chunkSize)
	copy(padded, payload)
	level := make([][]byte, 0, chunkSize/32)
	for i := 0; i < chunkSize; i += 32 {
		level = append(level, padded[i:i+32])
	}
	for len(level) > 1 {
		if len(level)%2 != 0 {
			panic("c02BMT: segment count is not a power of two")
		}
		next := make([][]byte, 0, len(level)/2)
		for i := 0; i < len(level); i += 2 {
			next = append(next, c02Keccak(level[i], level[i+1]))
		}
		level = next
	}
	return c02Keccak(c02LE64(span), level[0])
}

type c02Node struct {
	ref  []byte
	span uint64
}

// c02RefHash: the Aurora tree hash. The data is cut into chunkSize-byte leaves (an empty file is
// one empty leaf), each hashed with the BMT hash under its length as span. Then, level by level,
// every run of up to `branches` consecutive references becomes an intermediate chunk whose
// payload is the concatenated references and whose span is the number of data bytes below it;
// a run consisting of a single reference is carried up unchanged. The last remaining reference
// is the file reference.
func c02RefHash(data []byte, chunkSize, branches int) []byte {
	var level []c02Node
	for off := 0; off < len(data) || off == 0; off += chunkSize {
		end := off + chunkSize
		if end > len(data) {
			end = len(data)
		}
		level = append(level, c02Node{c02BMT(data[off:end], uint64(end-off), chunkSize), uint64(end - off)})
		if end == len(data) {
			break
		}
	}
	for len(level) > 1 {
		var next []c02Node
		for i := 0; i < len(level); i += branches {
			j := i + branches
			if j > len(level) {
				j = len(level)
			}
			if j-i == 1 {
				next = append(next, level[i]) // lone reference: carried up unchanged
				continue
			}
			var payload []byte
			var span uint64
			for _, n := range level[i:j] {
				payload = append(payload, n.ref...)
				span += n.span
			}
			next = append(next, c02Node{c02BMT(payload, span, chunkSize), span})
		}
		level = next
	}
	return level[0].ref
}

// c02Format returns the chunk size and branching the specification is evaluated with.
func c02Format() (chunkSize, branches int) {
	if c02Scaled() {
		return 128, 4 // the scaled build: 4 sections of 32 bytes, 4 references of 32 bytes
	}
	return 262144, 8192 // the Aurora format, literally
}

var (
	c02Mu       sync.Mutex
	c02Expected = map[int][]byte{}
	c02Baseline = map[int][]byte{}
)

func c02Want(l int) []byte {
	c02Mu.Lock()
	defer c02Mu.Unlock()
	if r, ok := c02Expected[l]; ok {
		return r
	}
	cs, br := c02Format()
	r := c02RefHash(c02Content(l), cs, br)
	c02Expected[l] = r
	return r
}

// ---------------------------------------------------------------- upload

func c02Upload(x *mc.X, st *c02Store, content []byte, seg c02Seg, what string) []byte {
	ctx := context.Background()
	p := NewPipelineBuilder(ctx, st, storage.ModePutUpload, false)
	if seg.reader {
		var ref boson.Address
		var err error
		if pv := mc.Try(func() {
			ref, err = FeedPipeline(ctx, p, &c02Reader{data: append([]byte(nil), content...), k: seg.feed, eofTog: seg.eofTog, stalls: seg.stalls, stallN: seg.stallN})
		}); pv != nil {
			x.Fail("upload-panic", "%s: FeedPipeline panicked: %v", what, pv)
		}
		x.Check(err == nil, "upload-error", "%s: FeedPipeline failed: %v", what, err)
		return append([]byte(nil), ref.Bytes()...)
	}
	off := 0
	for i, n := range seg.writes {
		b := append([]byte(nil), content[off:off+n]...)
		var got int
		var err error
		if pv := mc.Try(func() { got, err = p.Write(b) }); pv != nil {
			x.Fail("upload-panic", "%s: Write #%d of %d bytes at offset %d panicked: %v", what, i, n, off, pv)
		}
		for j := range b {
			b[j] = 0x5A // the pipeline must not retain the caller's buffer
		}
		x.Check(err == nil && got == n, "upload-error", "%s: Write #%d of %d bytes at offset %d returned %d, %v", what, i, n, off, got, err)
		off += n
	}
	if off != len(content) {
		x.Broken("segmentation %q sums to %d, want %d", seg.name, off, len(content))
	}
	var sum []byte
	var err error
	if pv := mc.Try(func() { sum, err = p.Sum() }); pv != nil {
		x.Fail("upload-panic", "%s: Sum panicked: %v", what, pv)
	}
	x.Check(err == nil, "upload-error", "%s: Sum failed: %v", what, err)
	return append([]byte(nil), sum...)
}

func c02Short(b []byte) string {
	s := hex.EncodeToString(b)
	if len(s) > 16 {
		s = s[:16] + ".."
	}
	return s
}

func c02Lengths() []int {
	c := int(boson.ChunkSize)
	if !c02Scaled() {
		ls := []int{0, 1, 31, 32, 33, c - 1, c, c + 1, 2*c + 10}
		if mc.Thorough() {
			ls = append(ls, 2*c, 3*c+1, 5*c-1)
		}
		return c02Dedupe(ls, 0, 1<<40)
	}
	ls := c02BoundaryLengths()
	if !mc.Thorough() {
		for l := 0; l <= 2*c+2; l++ {
			if l <= c+2 || l >= 2*c-2 || l%7 == 0 { // quick: the inside of the second chunk every 7th length
				ls = append(ls, l)
			}
		}
	} else {
		for l := 0; l <= 5*c+2; l++ {
			ls = append(ls, l)
		}
		for k := 6; k <= 65; k++ {
			ls = append(ls, k*c-1, k*c, k*c+1)
		}
	}
	return c02Dedupe(ls, 0, 1<<40)
}

func TestVerifC02(t *testing.T) {
	lens := c02Lengths()
	cs, br := c02Format()
	mc.Run(t, mc.Config{ID: "C02", Name: "C02-reference-" + c02Geometry(), MaxDev: -1, Params: map[string]interface{}{
		"geometry": c02Geometry(), "spec_chunk_size": cs, "spec_branches": br, "boson_chunk_size": boson.ChunkSize, "boson_branches": boson.Branches,
		"lengths":       c02Summ(lens),
		"segmentations": "single Write; FeedPipeline(bytes); no write / empty writes (l=0); 2 writes cut at {0,1,C-1,C,C+1,l-1,l}; 3 writes cut at pairs of {1,C-1,C,C+1,2C,2C+1,l-1}; fixed steps {1,7,C-1,C,C+1,2C+3,4C,5C+1}; C-steps with empty writes between; growing 1,2,3,..; FeedPipeline through readers returning at most {1,7,C-1} bytes, final bytes with or without io.EOF; FeedPipeline readers returning (0,nil): once after {0,1,C-1,C,C+1,l/2,2C,l} bytes, twice in a row after {0,C,l}, at 0+C+l/2+l of one stream, with 7-byte reads at C and twice at l/2, at C with data-with-EOF (real: single, FeedPipeline, step C+1, step 2C+3, split@1, C-1|empty|rest, reader 100000+EOF-with-data, (0,nil) once after {0,C,l/2,l} bytes, twice after C and l; thorough: step 65537, step 1 for l<=64)",
		"oracle":        "reference == independent tree hash of the bytes (literal 262144/8192/little-endian at the real geometry); == reference of the same bytes fed by one FeedPipeline(bytes.Reader); == reference of a second upload into the already populated store"}},
		func(x *mc.X) {
			l := lens[x.Choose(len(lens))]
			segs := c02Segs(l, c02Scaled() || mc.Thorough())
			seg := segs[x.Choose(len(segs))]
			what := fmt.Sprintf("file(len=%d,levels=%d,%s)", l, c02Levels(l, false), seg.name)
			x.Logf("%s writes=%s", what, c02WritesSumm(seg))
			if !c02Scaled() {
				// the statement's constants, literally
				x.Check(boson.ChunkSize == 262144 && boson.Branches == 8192 && boson.SpanSize == 8 && boson.HashSize == 32 && boson.SectionSize == 32,
					"format-constants", "boson constants are ChunkSize=%d Branches=%d SpanSize=%d HashSize=%d SectionSize=%d; the format says 262144 / 8192 / 8 / 32 / 32",
					boson.ChunkSize, boson.Branches, boson.SpanSize, boson.HashSize, boson.SectionSize)
			}
			content := c02Content(l)
			st := newC02Store()
			ref := c02Upload(x, st, content, seg, what)
			x.Check(len(ref) == 32, "reference-length", "%s: reference has %d bytes", what, len(ref))

			// (1) independent of the write segmentation: same bytes through one FeedPipeline(bytes.Reader)
			c02Mu.Lock()
			base, ok := c02Baseline[l]
			c02Mu.Unlock()
			if !ok {
				ctx := context.Background()
				a, err := FeedPipeline(ctx, NewPipelineBuilder(ctx, newC02Store(), storage.ModePutUpload, false), bytes.NewReader(content))
				x.Check(err == nil, "upload-error", "%s: baseline FeedPipeline failed: %v", what, err)
				base = append([]byte(nil), a.Bytes()...)
				c02Mu.Lock()
				c02Baseline[l] = base
				c02Mu.Unlock()
			}
			x.Check(bytes.Equal(ref, base), "reference-depends-on-segmentation", "%s: reference %s, but the same %d bytes fed by one FeedPipeline(bytes.Reader) give %s", what, c02Short(ref), l, c02Short(base))

			// (2) equals the format specification
			want := c02Want(l)
			x.Check(bytes.Equal(ref, want), "reference-differs-from-format", "%s: reference %s, the independent tree hash of the bytes is %s", what, c02Short(ref), c02Short(want))

			// (3) depends on the bytes only: not on what the store already holds
			if c02Scaled() || l <= int(boson.ChunkSize)+1 {
				again := c02Upload(x, st, content, c02Seg{name: "single-write", writes: []int{l}}, what+" second upload into the populated store")
				x.Check(bytes.Equal(again, ref), "reference-depends-on-store-state", "%s: second upload of the same bytes into the same store gives %s, first gave %s", what, c02Short(again), c02Short(ref))
			}

			// the root chunk is stored under the reference and carries the length as little-endian span
			ch, err := st.Get(context.Background(), storage.ModeGetRequest, boson.NewAddress(ref))
			x.Check(err == nil, "root-not-stored", "%s: no chunk stored under the reference: %v", what, err)
			x.Check(len(ch.Data()) >= 8 && binary.LittleEndian.Uint64(ch.Data()[:8]) == uint64(l), "root-span", "%s: root chunk span bytes % x, want little-endian %d", what, ch.Data()[:8], l)

			x.Tag(fmt.Sprintf("levels=%d", c02Levels(l, false)))
			c02TagSeg(x, l, seg)
			// where a lone reference is carried up (level 1 = leaves)
			n := (l + int(boson.ChunkSize) - 1) / int(boson.ChunkSize)
			for lv := 1; n > 1; lv++ {
				if n%int(boson.Branches) == 1 {
					x.Tag(fmt.Sprintf("lone-reference-carried-up-from-level-%d", lv))
				}
				if n%int(boson.Branches) == 0 {
					x.Tag(fmt.Sprintf("level-%d-exactly-full", lv))
				}
				n = (n + int(boson.Branches) - 1) / int(boson.Branches)
			}
			x.Outcome(fmt.Sprintf("levels=%d", c02Levels(l, false)))
			if len(seg.writes) > 1 || seg.reader || l > int(boson.ChunkSize) {
				x.Nontrivial()
			}
		})
}

var _ = io.EOF
var _ = sort.Ints

// ---------------------------------------------------------------- shared with C01 (copied)

// c02Store: content-addressed map. Put copies the bytes at the time of the call (as a real
// store serialises them) and records every Put; Get returns copies.
type c02Store struct {
	mu   sync.Mutex
	m    map[string][]byte
	puts int
	dup  int
}

func newC02Store() *c02Store { return &c02Store{m: map[string][]byte{}} }

func (s *c02Store) Put(_ context.Context, _ storage.ModePut, chs ...boson.Chunk) ([]bool, error) {
	s.mu.Lock()
	defer s.mu.Unlock()
	exist := make([]bool, len(chs))
	for i, c := range chs {
		k := string(c.Address().Bytes())
		s.puts++
		if _, ok := s.m[k]; ok {
			exist[i] = true
			s.dup++
			continue // content addressed: same address = same bytes (validity is checked separately)
		}
		s.m[k] = append([]byte(nil), c.Data()...)
	}
	return exist, nil
}

func (s *c02Store) Get(_ context.Context, _ storage.ModeGet, addr boson.Address) (boson.Chunk, error) {
	s.mu.Lock()
	defer s.mu.Unlock()
	d, ok := s.m[string(addr.Bytes())]
	if !ok {
		return nil, storage.ErrNotFound
	}
	return boson.NewChunk(boson.NewAddress(append([]byte(nil), addr.Bytes()...)), append([]byte(nil), d...)), nil
}

func c02Scaled() bool { return boson.Branches == 4 }

func c02Geometry() string {
	if c02Scaled() {
		return "scaled"
	}
	if boson.Branches == 8192 && boson.ChunkSize == 262144 {
		return "real"
	}
	return fmt.Sprintf("branches=%d", boson.Branches)
}

// content byte i of a file of l bytes; period 251 is coprime to every chunk size.
func c02Content(l int) []byte {
	b := make([]byte, l)
	for i := range b {
		b[i] = byte(i%251 + (i/251)*5 + l*7)
	}
	return b
}

func c02Levels(l int, enc bool) int {
	c := int(boson.ChunkSize)
	br := int(boson.Branches)
	if enc {
		br /= 2
	}
	leaves := (l + c - 1) / c
	lv := 1
	for n := 1; n < leaves; n *= br {
		lv++
	}
	return lv
}

func c02Dedupe(in []int, lo, hi int) []int {
	seen := map[int]bool{}
	var out []int
	for _, v := range in {
		if v >= lo && v <= hi && !seen[v] {
			seen[v] = true
			out = append(out, v)
		}
	}
	sort.Ints(out)
	return out
}

func c02Summ(v []int) string {
	if len(v) <= 48 {
		return fmt.Sprint(v)
	}
	return fmt.Sprintf("%d lengths: %v ... %v", len(v), v[:14], v[len(v)-14:])
}

// c02BoundaryLengths: the level-boundary-dense scaled lengths (plain levels change at C, 4C, 16C, 64C;
// encrypted at C, 2C, 4C, 8C, 16C, 32C, 64C).
func c02BoundaryLengths() []int {
	c := int(boson.ChunkSize)
	ls := []int{0, 1, 2, 31, 32, 33, c - 1, c, c + 1, 2*c - 1, 2 * c, 2*c + 1, 3 * c, 3*c + 1, 4*c - 1, 4 * c, 4*c + 1,
		5 * c, 5*c + 1, 8 * c, 8*c + 1, 15*c + 7, 16*c - 1, 16 * c, 16*c + 1, 17*c + 3, 20*c + 1, 21 * c, 32*c + 1, 63*c + 5, 64*c - 1, 64 * c, 64*c + 1, 65*c + 1}
	return c02Dedupe(ls, 0, 1<<30)
}

// c02Seg is one way of handing the content to the pipeline.
type c02Seg struct {
	name   string
	writes []int // sizes of the Write calls (kind "write")
	feed   int   // >0: FeedPipeline through a reader returning at most feed bytes per Read
	eofTog bool  // the reader returns the last bytes together with io.EOF
	reader bool  // FeedPipeline
	stalls []int // reader: byte offsets at which Read returns (0, nil) before going on (legal for an io.Reader)
	stallN int   // how many times in a row at each of those offsets (0 = 1)
}

func (s c02Seg) key() string {
	if s.reader {
		return fmt.Sprintf("feed/%d/%v/%v/%d", s.feed, s.eofTog, s.stalls, s.stallN)
	}
	return "w/" + fmt.Sprint(s.writes)
}

func c02Steps(l, s int) []int {
	var w []int
	for l > 0 {
		n := s
		if n > l {
			n = l
		}
		w = append(w, n)
		l -= n
	}
	return w
}

func c02Segs(l int, full bool) []c02Seg {
	c02SegMu.Lock()
	defer c02SegMu.Unlock()
	k := fmt.Sprintf("%d/%v", l, full)
	if v, ok := c02SegCache[k]; ok {
		return v
	}
	v := c02SegsBuild(l, full)
	c02SegCache[k] = v
	return v
}

func c02SegsBuild(l int, full bool) []c02Seg {
	c := int(boson.ChunkSize)
	var out []c02Seg
	seen := map[string]bool{}
	add := func(s c02Seg) {
		if k := s.key(); !seen[k] {
			seen[k] = true
			out = append(out, s)
		}
	}
	add(c02Seg{name: "single-write", writes: []int{l}})
	add(c02Seg{name: "feedpipeline", reader: true, feed: c, eofTog: false})
	if !c02Scaled() {
		// real geometry: a handful of shapes
		add(c02Seg{name: "step-C+1", writes: c02Steps(l, c+1)})
		add(c02Seg{name: "step-2C+3", writes: c02Steps(l, 2*c+3)})
		if l > 1 {
			add(c02Seg{name: "split@1", writes: []int{1, l - 1}})
		}
		if l > c-1 {
			add(c02Seg{name: "split@C-1+empty", writes: []int{c - 1, 0, l - (c - 1)}})
		}
		add(c02Seg{name: "feed-100000-eof-with-data", reader: true, feed: 100000, eofTog: true})
		zr := []int{c, l / 2}
		if full {
			zr = []int{0, c, l / 2, l}
		}
		for _, o := range c02Dedupe(zr, 0, l) {
			add(c02Seg{name: fmt.Sprintf("feed-C-zero-read@%d", o), reader: true, feed: c, stalls: []int{o}})
		}
		add(c02Seg{name: "feed-100000-zero-read-twice@C,l", reader: true, feed: 100000, stalls: c02Dedupe([]int{c, l}, 0, l), stallN: 2})
		if full {
			add(c02Seg{name: "step-65537", writes: c02Steps(l, 65537)})
			if l <= 64 {
				add(c02Seg{name: "step-1", writes: c02Steps(l, 1)})
			}
		}
		return out
	}
	if !full {
		add(c02Seg{name: "step-7", writes: c02Steps(l, 7)})
		add(c02Seg{name: "step-C+1", writes: c02Steps(l, c+1)})
		add(c02Seg{name: "step-2C+3", writes: c02Steps(l, 2*c+3)})
		if l > 1 {
			add(c02Seg{name: "split@1", writes: []int{1, l - 1}})
		}
		if l > c {
			add(c02Seg{name: "split@C-1,C+1", writes: []int{c - 1, 2, l - c - 1}})
		}
		add(c02Seg{name: "feed-7-eof-with-data", reader: true, feed: 7, eofTog: true})
		add(c02Seg{name: "feed-C-zero-read@C|l/2", reader: true, feed: c, stalls: c02Dedupe([]int{c, l / 2}, 0, l)})
		add(c02Seg{name: "feed-C-zero-read-before-eof", reader: true, feed: c, stalls: []int{l}})
		add(c02Seg{name: "feed-7-zero-read-twice@0,l/2", reader: true, feed: 7, stalls: c02Dedupe([]int{0, l / 2}, 0, l), stallN: 2})
		return out
	}
	if l == 0 {
		add(c02Seg{name: "no-write", writes: nil})
		add(c02Seg{name: "empty-writes", writes: []int{0, 0}})
	}
	cuts := c02Dedupe([]int{0, 1, c - 1, c, c + 1, l - 1, l}, 0, l)
	for _, p := range cuts {
		add(c02Seg{name: fmt.Sprintf("split@%d", p), writes: []int{p, l - p}})
	}
	cuts3 := c02Dedupe([]int{1, c - 1, c, c + 1, 2 * c, 2*c + 1, l - 1}, 1, l-1)
	for i, p := range cuts3 {
		for _, q := range cuts3[i+1:] {
			add(c02Seg{name: fmt.Sprintf("split@%d,%d", p, q), writes: []int{p, q - p, l - q}})
		}
	}
	for _, s := range []int{1, 7, c - 1, c, c + 1, 2*c + 3, 4 * c, 5*c + 1} {
		add(c02Seg{name: fmt.Sprintf("step-%d", s), writes: c02Steps(l, s)})
	}
	// chunk-size writes with an empty write between them
	var we []int
	for _, n := range c02Steps(l, c) {
		we = append(we, n, 0)
	}
	add(c02Seg{name: "step-C-with-empty-writes", writes: we})
	// growing writes 1,2,3,... (every buffer phase)
	var wg []int
	for rest, n := l, 1; rest > 0; n++ {
		k := n
		if k > rest {
			k = rest
		}
		wg = append(wg, k)
		rest -= k
	}
	add(c02Seg{name: "growing-1,2,3..", writes: wg})
	for _, k := range []int{1, 7, c - 1} {
		if k == 1 && l > 5*c {
			continue
		}
		add(c02Seg{name: fmt.Sprintf("feed-%d", k), reader: true, feed: k, eofTog: false})
		add(c02Seg{name: fmt.Sprintf("feed-%d-eof-with-data", k), reader: true, feed: k, eofTog: true})
	}
	add(c02Seg{name: "feed-C-eof-with-data", reader: true, feed: c, eofTog: true})
	// readers that return (0, nil): once at the start / after k bytes (incl. exactly at a chunk
	// boundary) / right before EOF, twice in a row, and at several places of one stream
	for _, o := range c02Dedupe([]int{0, 1, c - 1, c, c + 1, l / 2, 2 * c, l}, 0, l) {
		add(c02Seg{name: fmt.Sprintf("feed-C-zero-read@%d", o), reader: true, feed: c, stalls: []int{o}})
	}
	for _, o := range c02Dedupe([]int{0, c, l}, 0, l) {
		add(c02Seg{name: fmt.Sprintf("feed-C-zero-read-twice@%d", o), reader: true, feed: c, stalls: []int{o}, stallN: 2})
	}
	add(c02Seg{name: "feed-C-zero-reads@0,C,l/2,l", reader: true, feed: c, stalls: c02Dedupe([]int{0, c, l / 2, l}, 0, l)})
	add(c02Seg{name: "feed-7-zero-read@C", reader: true, feed: 7, stalls: c02Dedupe([]int{c}, 0, l)})
	add(c02Seg{name: "feed-7-zero-read-twice@l/2", reader: true, feed: 7, stalls: []int{l / 2}, stallN: 2})
	add(c02Seg{name: "feed-C-zero-read@C-eof-with-data", reader: true, feed: c, eofTog: true, stalls: c02Dedupe([]int{c}, 0, l)})
	return out
}

// c02Reader hands out at most k bytes per Read; with eofTog the final bytes come with io.EOF.
// At every offset listed in stalls (bytes delivered so far) it first returns (0, nil) stallN
// times -- "nothing happened", which an io.Reader may do at any time -- and no Read crosses a
// pending stall offset, so the empty read happens exactly there.
type c02Reader struct {
	data      []byte
	k         int
	eofTog    bool
	stalls    []int
	stallN    int
	delivered int
	stalled   map[int]int
	zeroReads int
}

func (r *c02Reader) Read(p []byte) (int, error) {
	want := r.stallN
	if want == 0 {
		want = 1
	}
	limit := -1
	for _, o := range r.stalls {
		if o == r.delivered && r.stalled[o] < want {
			if r.stalled == nil {
				r.stalled = map[int]int{}
			}
			r.stalled[o]++
			r.zeroReads++
			return 0, nil
		}
		if o > r.delivered && (limit < 0 || o < limit) {
			limit = o
		}
	}
	if len(r.data) == 0 {
		return 0, io.EOF
	}
	n := r.k
	if n > len(p) {
		n = len(p)
	}
	if n > len(r.data) {
		n = len(r.data)
	}
	if limit >= 0 && r.delivered+n > limit {
		n = limit - r.delivered
	}
	copy(p, r.data[:n])
	r.data = r.data[n:]
	r.delivered += n
	if len(r.data) == 0 && r.eofTog {
		return n, io.EOF
	}
	return n, nil
}

func c02WritesSumm(s c02Seg) string {
	if s.reader {
		if len(s.stalls) > 0 {
			n := s.stallN
			if n == 0 {
				n = 1
			}
			return fmt.Sprintf("FeedPipeline(reader: <=%d bytes per Read, last bytes with EOF=%v, %dx (0,nil) after %v bytes)", s.feed, s.eofTog, n, s.stalls)
		}
		return fmt.Sprintf("FeedPipeline(reader: <=%d bytes per Read, last bytes with EOF=%v)", s.feed, s.eofTog)
	}
	if len(s.writes) <= 12 {
		return fmt.Sprint(s.writes)
	}
	return fmt.Sprintf("%d writes %v...%v", len(s.writes), s.writes[:6], s.writes[len(s.writes)-3:])
}

func c02TagSeg(x *mc.X, l int, seg c02Seg) {
	c := int(boson.ChunkSize)
	if seg.reader {
		x.Tag("seg:feedpipeline")
		if seg.feed < c {
			x.Tag("seg:feedpipeline-short-reads")
		}
		if seg.eofTog && l > 0 {
			x.Tag("seg:feedpipeline-data-with-eof")
		}
		for _, o := range seg.stalls {
			if o == l && seg.eofTog && l > 0 {
				continue // the last bytes come with EOF: the reader is never asked again at l
			}
			switch {
			case o == l:
				x.Tag("seg:reader-zero-read-right-before-eof")
			case o == 0:
				x.Tag("seg:reader-zero-read-at-start")
			default:
				x.Tag("seg:reader-zero-read-mid-stream")
			}
			if o > 0 && o < l && o%c == 0 {
				x.Tag("seg:reader-zero-read-at-chunk-boundary")
			}
			if seg.stallN >= 2 {
				x.Tag("seg:reader-zero-read-twice-in-a-row")
			}
		}
		return
	}
	off := 0
	for _, n := range seg.writes {
		switch {
		case n == 0:
			x.Tag("seg:empty-write")
		case n == 1:
			x.Tag("seg:1-byte-write")
		}
		if n > c {
			x.Tag("seg:write-larger-than-one-chunk")
		}
		if n >= 2*c {
			x.Tag("seg:write-holds-2+-whole-chunks")
		}
		if n > 0 && off/c != (off+n-1)/c && off%c != 0 {
			x.Tag("seg:write-crosses-chunk-boundary-unaligned")
		}
		if n > 0 && off%c != 0 && (off+n)%c == 0 {
			x.Tag("seg:write-ends-exactly-on-chunk-boundary")
		}
		off += n
	}
	if len(seg.writes) == 0 {
		x.Tag("seg:no-write-at-all")
	}
}
