//go:build verif
// +build verif

// Package keyalpha provides boundary secp256k1 keys for key alphabets: keys
// whose public key coordinates have leading zero bytes, i.e. where a
// variable-width encoding of X or Y (big.Int.Bytes) differs from the fixed
// 32-byte one. They are found by a bounded search over a deterministic key
// stream priv_i = keccak256("verif-boundary-key-stream" || BE64(i)), once per
// process. The stream positions found by an earlier run of the same search are
// kept as hints: a hint is only used after the key at that position has been
// re-derived and re-checked, otherwise the search runs from 0 up to the bound.
package keyalpha

import (
	"encoding/binary"
	"fmt"
	"sync"

	gethcrypto "github.com/ethereum/go-ethereum/crypto"
	"golang.org/x/crypto/sha3"
)

type Key struct {
	Name  string
	Priv  []byte // 32-byte scalar
	Pub   []byte // 65-byte uncompressed public key (0x04 || X || Y), derived with go-ethereum
	Index int    // position in the key stream
}

type class struct {
	name  string
	match func(x, y []byte) bool
	hint  int
	bound int // search bound (number of stream positions examined at most)
}

func lz(b []byte) int {
	n := 0
	for _, v := range b {
		if v != 0 {
			break
		}
		n++
	}
	return n
}

// The classes. Bounds: single leading zero byte (probability 1/128 per key)
// 1<<13 positions; both coordinates (1/16384) and two leading zero bytes
// (1/65536) 1<<20 positions. Hints = positions the search returned on
// 2026-09-22 (157, 999, 35342, 101463, 103873; the full search takes ~20 s).
var classes = []class{
	{"X-leading-zero-byte", func(x, y []byte) bool { return lz(x) == 1 && lz(y) == 0 }, 157, 1 << 13},
	{"Y-leading-zero-byte", func(x, y []byte) bool { return lz(x) == 0 && lz(y) == 1 }, 999, 1 << 13},
	{"X-and-Y-leading-zero-byte", func(x, y []byte) bool { return lz(x) >= 1 && lz(y) >= 1 }, 35342, 1 << 20},
	{"X-two-leading-zero-bytes", func(x, y []byte) bool { return lz(x) >= 2 }, 101463, 1 << 20},
	{"Y-two-leading-zero-bytes", func(x, y []byte) bool { return lz(y) >= 2 }, 103873, 1 << 20},
}

// StreamKey returns the private scalar at stream position i.
func StreamKey(i int) []byte {
	h := sha3.NewLegacyKeccak256()
	h.Write([]byte("verif-boundary-key-stream"))
	var n [8]byte
	binary.BigEndian.PutUint64(n[:], uint64(i))
	h.Write(n[:])
	return h.Sum(nil)
}

func derive(i int) (priv, pub []byte, ok bool) {
	priv = StreamKey(i)
	k, err := gethcrypto.ToECDSA(priv)
	if err != nil {
		return nil, nil, false // scalar out of range (probability ~2^-128)
	}
	return priv, gethcrypto.FromECDSAPub(&k.PublicKey), true
}

var (
	once   sync.Once
	found  []Key
	failed error
)

// Search runs the bounded search for one class, ignoring hints.
func Search(ci int) (Key, bool) {
	c := classes[ci]
	for i := 0; i < c.bound; i++ {
		priv, pub, ok := derive(i)
		if ok && c.match(pub[1:33], pub[33:65]) {
			return Key{c.name, priv, pub, i}, true
		}
	}
	return Key{}, false
}

func NumClasses() int { return len(classes) }

// Boundary returns one key per class (classes for which the bounded search
// finds nothing are reported as an error: the alphabet must not shrink silently).
func Boundary() ([]Key, error) {
	once.Do(func() {
		for ci, c := range classes {
			if c.hint >= 0 {
				if priv, pub, ok := derive(c.hint); ok && c.match(pub[1:33], pub[33:65]) {
					found = append(found, Key{c.name, priv, pub, c.hint})
					continue
				}
			}
			k, ok := Search(ci)
			if !ok {
				failed = fmt.Errorf("keyalpha: no %s key within %d stream positions", c.name, c.bound)
				return
			}
			found = append(found, k)
		}
	})
	return found, failed
}
