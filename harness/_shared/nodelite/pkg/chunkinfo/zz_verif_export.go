//go:build verif
// +build verif

package chunkinfo

import (
	"context"
	"sort"

	"github.com/gauss-project/aurorafs/pkg/bitvector"
	"github.com/gauss-project/aurorafs/pkg/boson"
	"github.com/gauss-project/aurorafs/pkg/chunkinfo/pb"
)

// Accessors for the verification node-lite. No behaviour is added: the
// pyramid response entry point is the package's own handler body, the rest are
// read-only copies of the in-memory tables.

// VerifOnPyramidResp delivers a pyramid (hash -> chunk data incl. span) as if
// it had arrived from `peer` in answer to a pyramid request: it runs the real
// onChunkPyramidResp (verification of the pyramid, storing its chunks through
// traversal.GetChunkHashes, registration in the pyramid/neighbor/source
// tables).
func (ci *ChunkInfo) VerifOnPyramidResp(ctx context.Context, rootCid, peer boson.Address, pyramid map[string][]byte) error {
	keys := make([]string, 0, len(pyramid))
	for k := range pyramid {
		keys = append(keys, k)
	}
	sort.Strings(keys)
	resps := make([]pb.ChunkPyramidResp, 0, len(keys))
	for _, k := range keys {
		resps = append(resps, pb.ChunkPyramidResp{Hash: boson.MustParseHexAddress(k).Bytes(), Chunk: pyramid[k]})
	}
	return ci.onChunkPyramidResp(ctx, nil, rootCid, peer, resps)
}

// VerifOnChunkInfoResp delivers a chunk-info response (overlay -> bit vector
// bytes) for rootCid as if `from` had answered a chunk-info request: it runs the
// real onChunkInfoResp handler body (which records a discovery entry for
// `from` when the response contains one).
func (ci *ChunkInfo) VerifOnChunkInfoResp(ctx context.Context, rootCid, from boson.Address, presence map[string][]byte) {
	ci.onChunkInfoResp(ctx, nil, from, pb.ChunkInfoResp{RootCid: rootCid.Bytes(), Presence: presence})
}

// VerifShutdown ends the four table-listener goroutines (they range over their
// channels) and drops the references the two leaked ticker goroutines could
// keep alive. The instance must not be used afterwards.
func (ci *ChunkInfo) VerifShutdown() {
	close(ci.cp.pyramidPutChan)
	close(ci.cd.discoverPutChan)
	close(ci.ct.serverPutChan)
	close(ci.cs.sourcePutChan)
	ci.cd.Lock()
	ci.cd.presence = map[string]map[string]*discoverBitVector{}
	ci.cd.Unlock()
	ci.tt.Lock()
	ci.tt.trigger = map[string]int64{}
	ci.tt.Unlock()
	ci.stateStorer, ci.storer, ci.traversal, ci.route, ci.streamer = nil, nil, nil, nil, nil
	ci.oracleChain, ci.resolver = nil, nil // subPub stays: detached Publish goroutines may still use it
	ci.cp, ci.cs = nil, nil
	// the two ticker goroutines started by New never end and keep ci alive; they only look at
	// ci.cd.presence (empty from now on) and ci.tt. Swap the tables for empty ones so that the
	// 1000-slot request channels (~100 KB per instance) can be collected.
	ci.cd = &chunkInfoDiscover{presence: map[string]map[string]*discoverBitVector{}}
	ci.ct = &chunkInfoTabNeighbor{presence: map[string]map[string]*bitvector.BitVector{}, overlays: map[string][]boson.Address{}}
}

type VerifBits struct {
	Len int
	B   []byte
}

type VerifSource struct {
	PyramidSource string
	ChunkSource   map[string]VerifBits
}

// VerifTables is a deep copy of the in-memory tables.
type VerifTables struct {
	HashData  map[string][2]uint              // root -> {hashMax, chunkMax}
	ChunkRefs map[string]uint                 // cid -> pyramid reference count
	Presence  map[string]map[string]VerifBits // ct.presence: root -> overlay -> bits
	Overlays  map[string][]string             // ct.overlays
	Discover  map[string]map[string]VerifBits // cd.presence
	Source    map[string]VerifSource          // cs.presence
	Queues    []string
	Pending   []string
}

func (ci *ChunkInfo) VerifTables() VerifTables {
	t := VerifTables{HashData: map[string][2]uint{}, ChunkRefs: map[string]uint{}, Presence: map[string]map[string]VerifBits{},
		Overlays: map[string][]string{}, Discover: map[string]map[string]VerifBits{}, Source: map[string]VerifSource{}}
	ci.cp.RLock()
	for k, v := range ci.cp.hashData {
		t.HashData[k] = [2]uint{v.hashMax, v.chunkMax}
	}
	for k, v := range ci.cp.chunk {
		t.ChunkRefs[k] = v
	}
	ci.cp.RUnlock()
	ci.ct.RLock()
	for r, m := range ci.ct.presence {
		t.Presence[r] = map[string]VerifBits{}
		for o, bv := range m {
			t.Presence[r][o] = VerifBits{Len: bv.Len(), B: append([]byte{}, bv.Bytes()...)}
		}
	}
	for r, os := range ci.ct.overlays {
		for _, o := range os {
			t.Overlays[r] = append(t.Overlays[r], o.String())
		}
	}
	ci.ct.RUnlock()
	ci.cd.RLock()
	for r, m := range ci.cd.presence {
		t.Discover[r] = map[string]VerifBits{}
		for o, d := range m {
			t.Discover[r][o] = VerifBits{Len: d.bit.Len(), B: append([]byte{}, d.bit.Bytes()...)}
		}
	}
	ci.cd.RUnlock()
	ci.cs.RLock()
	for r, s := range ci.cs.presence {
		vs := VerifSource{PyramidSource: s.PyramidSource, ChunkSource: map[string]VerifBits{}}
		for o, bv := range s.ChunkSource {
			vs.ChunkSource[o] = VerifBits{Len: bv.Len(), B: append([]byte{}, bv.Bytes()...)}
		}
		t.Source[r] = vs
	}
	ci.cs.RUnlock()
	ci.queues.Range(func(k, _ interface{}) bool { t.Queues = append(t.Queues, k.(string)); return true })
	sort.Strings(t.Queues)
	ci.cpd.RLock()
	for k := range ci.cpd.finder {
		t.Pending = append(t.Pending, k)
	}
	ci.cpd.RUnlock()
	sort.Strings(t.Pending)
	return t
}

// VerifIsDownload is ct.isDownload for self ("file fully downloaded").
func (ci *ChunkInfo) VerifIsDownload(rootCid boson.Address) bool {
	return ci.ct.isDownload(rootCid, ci.addr)
}
