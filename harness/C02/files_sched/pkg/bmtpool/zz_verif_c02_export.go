//go:build verif
// +build verif

package bmtpool

import "github.com/gauss-project/aurorafs/pkg/bmt"

// VerifSetPool replaces the process-wide hasher pool (harness use: a pool created inside a
// scheduled execution, with a small capacity to model a nearly exhausted pool).
func VerifSetPool(p *bmt.Pool) (old *bmt.Pool) {
	old, instance = instance, p
	return old
}
