//go:build verif
// +build verif

package cac

import (
	"bytes"
	"encoding/binary"
	"fmt"
	"sort"
	"testing"

	"github.com/gauss-project/aurorafs/pkg/boson"
	"github.com/gauss-project/aurorafs/pkg/zzverif/mc"
	"golang.org/x/crypto/sha3"
)

// ---- independent reference BMT, written from the definition ----------------
//
// address = keccak256(span || root), root = binary Merkle root over the data
// zero-padded to Branches*32 bytes, leaves = keccak256 of 64-byte pieces (two
// 32-byte sections), inner nodes = keccak256(left || right).

func verifKeccak(parts ...[]byte) []byte {
	h := sha3.NewLegacyKeccak256()
	for _, p := range parts {
		h.Write(p)
	}
	return h.Sum(nil)
}

// verifRootNaive: no shortcuts at all (used for scaled geometry and to
// cross-check the shortcut version once on real geometry).
func verifRootNaive(padded []byte) []byte {
	if len(padded) == 64 {
		return verifKeccak(padded)
	}
	half := len(padded) / 2
	return verifKeccak(verifRootNaive(padded[:half]), verifRootNaive(padded[half:]))
}

var verifZeroRoots = map[int][]byte{}

func verifZeroRoot(size int) []byte {
	if r, ok := verifZeroRoots[size]; ok {
		return r
	}
	var r []byte
	if size == 64 {
		r = verifKeccak(make([]byte, 64))
	} else {
		z := verifZeroRoot(size / 2)
		r = verifKeccak(z, z)
	}
	verifZeroRoots[size] = r
	return r
}

// verifRoot: same tree, but a subtree lying completely in the zero padding is
// replaced by the (memoised) root of an all-zero subtree of that size.
func verifRoot(data []byte, off, size int) []byte {
	if off >= len(data) {
		return verifZeroRoot(size)
	}
	if size == 64 {
		var leaf [64]byte
		copy(leaf[:], data[off:])
		return verifKeccak(leaf[:])
	}
	return verifKeccak(verifRoot(data, off, size/2), verifRoot(data, off+size/2, size/2))
}

// verifBMT is the reference address of payload = span(8) || data, data at most C bytes.
func verifBMT(span, data []byte) []byte {
	return verifKeccak(span, verifRoot(data, 0, boson.ChunkSize))
}

// ---- alphabets ----------------------------------------------------------------

type verifMut struct {
	pos int
	xor byte
}

const (
	verifOpValid = iota
	verifOpNew
	verifOpNewWithDataSpan
	verifOpAddrByte
	verifOpAddrShape
	verifOpPayload
)

type verifOp struct {
	kind int
	mu   verifMut // address byte / payload byte mutation; for AddrShape pos = 0 (31 bytes), 1 (33 bytes), 2 (empty)
	nsf  int      // how many entries of verifSpanFills are enumerated under this op
}

// verifOps lists the operations enumerated for payload length L.
// Address mutations: every byte; payload mutations: every position of the
// span, of the first two and of the last two sections, plus positions in the
// interior sections. "heavy" lengths (real geometry, one Valid = one full
// 256 KiB BMT) use a reduced grid, see NOTES.md.
func verifOps(L, C int, thorough bool) []verifOp {
	all := len(verifSpanFills)
	alt := func(i int) byte {
		if i%2 == 0 {
			return 0x01
		}
		return 0x80
	}
	heavy := L > 4096
	if heavy && !thorough {
		// quick tier, real geometry, one Valid = one full 256 KiB BMT: boundary grid only
		ops := []verifOp{{kind: verifOpValid, nsf: 2}, {kind: verifOpNew, nsf: 2}, {kind: verifOpNewWithDataSpan, nsf: 2}}
		if L > C+8 {
			return ops
		}
		if L != C+8 {
			// heavy lengths other than the full chunk: a minimal set
			ops = append(ops, verifOp{kind: verifOpAddrByte, mu: verifMut{0, 0x01}, nsf: 1}, verifOp{kind: verifOpAddrShape, mu: verifMut{pos: 0}, nsf: 1})
			for i, p := range []int{0, 7, 8, L - 33, L - 32, L - 1} {
				ops = append(ops, verifOp{kind: verifOpPayload, mu: verifMut{p, alt(i)}, nsf: 1})
			}
			return ops
		}
		for i, k := range []int{0, 15, 16, 31} {
			ops = append(ops, verifOp{kind: verifOpAddrByte, mu: verifMut{k, alt(i)}, nsf: 1})
		}
		for k := 0; k < 3; k++ {
			ops = append(ops, verifOp{kind: verifOpAddrShape, mu: verifMut{pos: k}, nsf: 1})
		}
		var pos []int
		for p := 0; p < 8; p++ {
			pos = append(pos, p)
		}
		pos = append(pos, 8, 8+31, 8+32, 8+63, 8+64)
		nsec := (L - 8 + 31) / 32
		for k := 2 + 512; k < nsec-2; k += 1024 {
			pos = append(pos, 8+32*k+(k*13)%32)
		}
		pos = append(pos, L-65, L-64, L-33, L-32, L-1)
		for i, p := range pos {
			ops = append(ops, verifOp{kind: verifOpPayload, mu: verifMut{p, alt(i)}, nsf: 1})
		}
		return ops
	}
	ops := []verifOp{{kind: verifOpValid, nsf: all}, {kind: verifOpNew, nsf: all}, {kind: verifOpNewWithDataSpan, nsf: all}}
	if L < 8 || L > C+8 {
		return ops
	}
	// address
	for k := 0; k < 32; k++ {
		ops = append(ops, verifOp{kind: verifOpAddrByte, mu: verifMut{k, 0x01}, nsf: all}, verifOp{kind: verifOpAddrByte, mu: verifMut{k, 0x80}, nsf: all})
	}
	for k := 0; k < 3; k++ {
		ops = append(ops, verifOp{kind: verifOpAddrShape, mu: verifMut{pos: k}, nsf: all})
	}
	// payload
	seen := map[int]bool{}
	dense := func(p int) {
		if p < 0 || p >= L || seen[p] {
			return
		}
		seen[p] = true
		ops = append(ops, verifOp{kind: verifOpPayload, mu: verifMut{p, 0x01}, nsf: all}, verifOp{kind: verifOpPayload, mu: verifMut{p, 0x80}, nsf: all})
	}
	for p := 0; p < 8+64; p++ {
		dense(p)
	}
	// interior sections: one position each. Heavy lengths: every 256th section
	// under all span/fill combinations; every section under span_fill[0] only
	// for the full chunk and the half+1 chunk.
	everySection := !heavy || L == C+8 || L == 8+C/2+1
	nsec := (L - 8 + 31) / 32
	for k := 2; k < nsec-2; k++ {
		p := 8 + 32*k + (k*13)%32
		if p >= L-64 || seen[p] {
			continue
		}
		switch {
		case !heavy:
			seen[p] = true
			ops = append(ops, verifOp{kind: verifOpPayload, mu: verifMut{p, alt(k)}, nsf: all})
		case (k-2)%256 == 0:
			seen[p] = true
			ops = append(ops, verifOp{kind: verifOpPayload, mu: verifMut{p, alt(k / 256)}, nsf: all})
		case everySection:
			seen[p] = true
			ops = append(ops, verifOp{kind: verifOpPayload, mu: verifMut{p, alt(k)}, nsf: 1})
		}
	}
	for p := L - 64; p < L; p++ {
		dense(p)
	}
	return ops
}

const (
	verifSpanLen = iota
	verifSpanZero
	verifSpanOne
	verifSpanMax
	verifSpanSubtree
)

type verifSpanFill struct {
	span  int
	zeros bool
	name  string
}

var verifSpanFills = []verifSpanFill{
	{verifSpanLen, false, "span=len,pattern"},
	{verifSpanMax, false, "span=2^64-1,pattern"},
	{verifSpanLen, true, "span=len,zeros"},
	{verifSpanZero, false, "span=0,pattern"},
	{verifSpanOne, false, "span=1,pattern"},
	{verifSpanSubtree, false, "span=C*Branches,pattern"},
}

func verifPayload(L int, sf verifSpanFill) []byte {
	p := make([]byte, L)
	var span [8]byte
	dl := L - 8
	if dl < 0 {
		dl = 0
	}
	switch sf.span {
	case verifSpanLen:
		binary.LittleEndian.PutUint64(span[:], uint64(dl))
	case verifSpanZero:
	case verifSpanOne:
		binary.LittleEndian.PutUint64(span[:], 1)
	case verifSpanMax:
		binary.LittleEndian.PutUint64(span[:], ^uint64(0))
	case verifSpanSubtree:
		binary.LittleEndian.PutUint64(span[:], uint64(boson.ChunkSize)*uint64(boson.Branches))
	}
	copy(p, span[:]) // for L<8: a truncated span
	if !sf.zeros {
		for i := 8; i < L; i++ {
			j := i - 8
			p[i] = byte((j*131+(j>>8)*29+11)^(j>>16)) | 0x02 // never zero
		}
	}
	return p
}

// ---- the harness --------------------------------------------------------------

// verifChooseIdx picks an index 0..n-1 as two choices (block of 8, offset), so
// that the engine's sharding on the first two choice levels can skip whole
// blocks that belong to another shard.
func verifChooseIdx(x *mc.X, n int) int {
	const k = 8
	hi := x.Choose((n + k - 1) / k)
	rem := n - hi*k
	if rem > k {
		rem = k
	}
	return hi*k + x.Choose(rem)
}

func TestVerifC04(t *testing.T) {
	C := boson.ChunkSize
	real := C > 4096
	name := "C04-cac-scaled"
	if real {
		name = "C04-cac-real"
	}
	thorough := mc.Thorough()
	lens := []int{0, 1, 2, 3, 4, 5, 6, 7, 8, 9, 8 + 31, 8 + 32, 8 + 33, 8 + 63, 8 + 64, 8 + 65,
		8 + C/2, C + 7, C + 8, C + 9, C + 8 + 32}
	if !real || thorough {
		lens = append(lens, 8+C/2-1, 8+C/2+1)
	}
	{
		seen := map[int]bool{}
		var u []int
		for _, l := range lens {
			if !seen[l] {
				seen[l] = true
				u = append(u, l)
			}
		}
		sort.Ints(u)
		lens = u
	}

	// self-check of the reference shortcut against the fully naive tree
	{
		d := verifPayload(8+C/2+1, verifSpanFills[0])[8:]
		padded := make([]byte, C)
		copy(padded, d)
		if !bytes.Equal(verifRootNaive(padded), verifRoot(d, 0, C)) {
			t.Fatalf("BROKEN-CHECK reference BMT: zero-subtree shortcut disagrees with the naive tree")
		}
	}

	type memoKey struct{ L, sf int }
	refMemo := map[memoKey][]byte{}
	opsMemo := map[int][]verifOp{}

	mc.Run(t, mc.Config{ID: "C04", Name: name, MaxDev: -1, Params: map[string]interface{}{
		"chunk_size_C":    C,
		"payload_lengths": lens,
		"span_fill": func() (r []string) {
			for _, s := range verifSpanFills {
				r = append(r, s.name)
			}
			return
		}(),
		"address_mutation": "each of the 32 bytes xor 0x01 and xor 0x80; truncated to 31; extended to 33; empty",
		"payload_mutation": "xor 0x01 and xor 0x80 at every position of the span, of the first two and of the last two sections (= every position at the scaled geometry); one position in every interior section",
		"heavy_lengths":    "payload > 4096 bytes (real geometry only; one Valid = one 256 KiB BMT). quick: span_fill[0..1] for Valid/New/NewWithDataSpan; under span_fill[0], for the full chunk (len C+8): address bytes {0,15,16,31} + 3 wrong-length addresses, payload positions = all 8 span bytes, data offsets {0,31,32,63,64}, {len-65,len-64,len-33,len-32,len-1} and one byte in every 1024th interior section; for the other heavy lengths (8+C/2, C+7): address byte 0, 31-byte address, payload positions {0,7,8,len-33,len-32,len-1}; one xor value each (alternating 0x01/0x80). thorough: full alphabet, one byte in every 256th interior section under all span_fill, and for len = C+8 and 8+C/2+1 one byte in every interior section under span_fill[0]",
		"tier_thorough":    thorough,
		"constructors":     "New(data) when span=len, NewWithDataSpan(payload) for every span",
		"out_of_range":     "len<8: address = BMT(span zero-extended, no data); len>C+8: address = BMT(span, first C data bytes)",
	}}, func(x *mc.X) {
		L := lens[x.Choose(len(lens))]
		inRange := L >= 8 && L <= C+8

		ops, ok := opsMemo[L]
		if !ok {
			ops = verifOps(L, C, thorough)
			opsMemo[L] = ops
		}
		op := ops[verifChooseIdx(x, len(ops))]
		sfi := 0
		if L < 8 {
			sfi = []int{0, 2}[x.Choose(2)] // span truncated: only the fill matters
		} else {
			sfi = x.Choose(op.nsf)
		}
		sf := verifSpanFills[sfi]
		payload := verifPayload(L, sf)
		x.Logf("payload len %d (%s), C=%d", L, sf.name, C)

		// reference address of the unmutated payload ("tempting" address when out of range)
		ref, ok := refMemo[memoKey{L, sfi}]
		if !ok {
			switch {
			case L < 8:
				sp := make([]byte, 8)
				copy(sp, payload)
				ref = verifBMT(sp, nil)
			case L > C+8:
				ref = verifBMT(payload[:8], payload[8:8+C])
			default:
				ref = verifBMT(payload[:8], payload[8:])
			}
			refMemo[memoKey{L, sfi}] = ref
		}

		valid := func(c boson.Chunk) (v bool) {
			if pv := mc.Try(func() { v = Valid(c) }); pv != nil {
				x.Fail("panic-valid", "Valid panicked on payload len %d: %v", L, pv)
			}
			return v
		}

		switch {
		case op.kind == verifOpValid:
			got := valid(boson.NewChunk(boson.NewAddress(append([]byte{}, ref...)), payload))
			x.Logf("Valid(addr=BMT) = %v", got)
			switch {
			case L < 8:
				x.Tag("too-short-with-tempting-address")
				x.Nontrivial()
				x.Outcome("short->invalid")
				x.Check(!got, "valid-accepts-short-payload", "payload of %d bytes (< 8) accepted", L)
			case L > C+8:
				x.Tag("too-long-with-address-of-truncated-data")
				x.Nontrivial()
				x.Outcome("long->invalid")
				x.Check(!got, "valid-accepts-oversize-payload", "payload of %d bytes (> C+8 = %d) accepted", L, C+8)
			default:
				if L == 8 || L == C+8 {
					x.Tag("length-boundary-valid")
					x.Nontrivial()
				}
				x.Outcome("exact->valid")
				x.Check(got, "valid-rejects-correct-chunk", "payload len %d (%s) with address = reference BMT rejected", L, sf.name)
			}

		case op.kind == verifOpNew:
			if sf.span != verifSpanLen || L < 8 {
				x.Outcome("new-n/a")
				return
			}
			data := payload[8:]
			var c boson.Chunk
			var err error
			if pv := mc.Try(func() { c, err = New(data) }); pv != nil {
				x.Fail("panic-new", "New(%d bytes) panicked: %v", len(data), pv)
			}
			must := len(data) >= 1 && len(data) <= C
			x.Logf("New(%d bytes) err=%v", len(data), err)
			if err != nil {
				x.Outcome("new-rejected")
				x.Check(!must, "new-rejects-in-range-data", "New(%d bytes) failed: %v", len(data), err)
				x.Nontrivial()
				return
			}
			x.Outcome("new-ok")
			if !must {
				x.Tag("new-accepted-out-of-range-length")
			}
			d := c.Data()
			x.Check(len(d) >= 8 && len(d) <= C+8, "new-returns-out-of-range-chunk", "New(%d bytes) returned a chunk with %d payload bytes", len(data), len(d))
			x.Check(len(d) == 8+len(data) && bytes.Equal(d[8:], data), "new-payload-differs", "New(%d bytes): chunk payload is not span||data", len(data))
			// the statement does not fix the span encoding: the reference is taken over the span New chose
			nref := ref
			if bytes.Equal(d[:8], payload[:8]) {
				x.Tag("new-span-is-LE64-data-length")
			} else {
				nref = verifBMT(d[:8], d[8:])
			}
			x.Check(bytes.Equal(c.Address().Bytes(), nref), "new-address-not-bmt", "New(%d bytes): address %x, reference BMT %x", len(data), c.Address().Bytes(), nref)
			x.Check(valid(c), "new-chunk-invalid", "New(%d bytes) returned a chunk that Valid rejects", len(data))

		case op.kind == verifOpNewWithDataSpan:
			var c boson.Chunk
			var err error
			if pv := mc.Try(func() { c, err = NewWithDataSpan(payload) }); pv != nil {
				x.Fail("panic-newwithdataspan", "NewWithDataSpan(%d bytes) panicked: %v", L, pv)
			}
			must := L >= 9 && L <= C+8 // 1..C data bytes; L == 8 (no data) may go either way
			x.Logf("NewWithDataSpan(%d bytes) err=%v", L, err)
			if err != nil {
				x.Outcome("nwds-rejected")
				x.Check(!must, "newwithdataspan-rejects-in-range", "NewWithDataSpan(%d bytes, %s) failed: %v", L, sf.name, err)
				x.Nontrivial()
				return
			}
			x.Outcome("nwds-ok")
			x.Check(inRange, "newwithdataspan-returns-out-of-range-chunk", "NewWithDataSpan(%d bytes) succeeded", L)
			x.Check(bytes.Equal(c.Data(), payload), "newwithdataspan-payload-differs", "NewWithDataSpan(%d bytes): payload changed", L)
			x.Check(bytes.Equal(c.Address().Bytes(), ref), "newwithdataspan-address-not-bmt", "NewWithDataSpan(%d bytes, %s): address %x, reference %x", L, sf.name, c.Address().Bytes(), ref)
			x.Check(valid(c), "newwithdataspan-chunk-invalid", "NewWithDataSpan(%d bytes) returned a chunk that Valid rejects", L)

		case op.kind == verifOpAddrByte || op.kind == verifOpAddrShape:
			// address mutations of a valid chunk
			addr := append([]byte{}, ref...)
			what := ""
			switch {
			case op.kind == verifOpAddrByte:
				addr[op.mu.pos] ^= op.mu.xor
				what = fmt.Sprintf("address byte %d ^= %#x", op.mu.pos, op.mu.xor)
			case op.mu.pos == 0:
				addr = addr[:31]
				what = "address truncated to 31 bytes"
			case op.mu.pos == 1:
				addr = append(addr, 0)
				what = "address extended by a zero byte"
			default:
				addr = nil
				what = "empty address"
			}
			x.Logf("%s", what)
			got := valid(boson.NewChunk(boson.NewAddress(addr), payload))
			x.Tag("address-mutation")
			x.Nontrivial()
			x.Outcome("addr-mutated->invalid")
			x.Check(!got, "valid-accepts-mutated-address", "payload len %d (%s): %s still valid", L, sf.name, what)

		default:
			mu := op.mu
			mutated := append([]byte{}, payload...)
			mutated[mu.pos] ^= mu.xor
			x.Logf("payload byte %d ^= %#x", mu.pos, mu.xor)
			// the oracle recomputes the reference for the mutated payload
			mref := verifBMT(mutated[:8], mutated[8:])
			want := bytes.Equal(mref, ref)
			if want {
				x.Tag("reference-collision") // would be a keccak collision
			}
			got := valid(boson.NewChunk(boson.NewAddress(append([]byte{}, ref...)), mutated))
			if mu.pos < 8 {
				x.Tag("span-byte-mutation")
			} else {
				x.Tag("data-byte-mutation")
				if (mu.pos-8)/32 >= 2 && (L-1-mu.pos)/32 >= 2 {
					x.Tag("data-byte-mutation-interior-section")
				}
			}
			x.Nontrivial()
			x.Outcome("payload-mutated->invalid")
			x.Check(got == want, "valid-accepts-mutated-payload", "payload len %d (%s): byte %d ^= %#x: Valid=%v, reference says %v", L, sf.name, mu.pos, mu.xor, got, want)
			// and the mutated payload under its own reference address is valid
			got2 := valid(boson.NewChunk(boson.NewAddress(mref), mutated))
			x.Check(got2, "valid-rejects-correct-chunk", "payload len %d (%s) mutated at %d with its own reference address rejected", L, sf.name, mu.pos)
		}
	})
}
